"""Regenerates /verif/MANIFEST.json from the check modules that exist (python -m mc.manifest)."""
import importlib
import json
import os

ROOT = os.path.dirname(os.path.dirname(os.path.abspath(__file__)))
BASELINE_CMD = ("cd /repo && /venv/bin/python -m pytest -ra -q -p no:cacheprovider --timeout=900 "
                "--continue-on-collection-errors")

ENGINES = {
    "E1": "small-scope input explorer: complete enumeration of bounded input spaces on the real code vs an independent reference model",
    "E2": "environment-answer explorer: the harness owns numpy's RNG; every draw is a choice point, all answer sequences within a deviation bound are executed",
    "E3": "explicit-state history explorer: BFS over call histories on live objects with canonical-state deduplication and a differential oracle",
}


def main():
    props = [json.loads(l) for l in open(os.path.join(ROOT, "properties.jsonl"))]
    checks, na = [], []
    for pr in props:
        pid = pr["id"]
        path = os.path.join(ROOT, "mc", "checks", pid.lower() + ".py")
        if not os.path.exists(path):
            na.append({"property_id": pid, "reason": "check not built yet (design in DESIGN.md section 4); not claimed until it exists"})
            continue
        mod = importlib.import_module("mc.checks." + pid.lower())
        d = mod.describe("quick", 0)
        meta = getattr(mod, "MANIFEST", {})
        checks.append({
            "property_id": pid,
            "quick_cmd": "bin/check %s quick" % pid,
            "thorough_cmd": "bin/check %s thorough" % pid,
            "evidence_file": "/verif/evidence/%s.json" % pid,
            "replay_cmd_template": "bin/check %s --replay {path}" % pid,
            "engine": meta.get("engine", "E1"),
            "level_claimed": {
                "category": "model_checking",
                "text": meta.get("text", d["rule"]),
                "design_ref": "DESIGN.md section 4, " + pid,
            },
            "level_note": meta.get("note", "; ".join(d.get("assumptions", [])) or "bounds as stated in the evidence file"),
            "technique": d.get("technique", "exhaustive bounded enumeration on the real code"),
        })
    man = {
        "version": 1,
        "setup_cmd": "bin/setup",
        "hooks": {
            "guard": "SEMPLER_VERIF",
            "enable": "no source hooks exist: the seams are numpy.random (patched from outside by mc/env/tape.py) and a stand-in rpy2 on sys.path (stubs/); bin/check exports SEMPLER_VERIF=1 only for the record",
            "baseline_off_cmd": BASELINE_CMD,
            "source_commits": [],
            "add_only": True,
        },
        "engines": [{"name": k, "path": "mc/", "kind_free_text": v,
                     "serves_properties": [c["property_id"] for c in checks if k in c["engine"]]} for k, v in ENGINES.items()],
        "checks": checks,
        "not_applicable": na,
        "notes": "All checks: bin/check <ID> <quick|thorough>; replay: bin/check <ID> --replay <file>. "
                 "Genuine defects repaired by fix: commits in /repo are listed in known_findings.json (fixed entries suppress nothing).",
    }
    with open(os.path.join(ROOT, "MANIFEST.json"), "w") as fh:
        json.dump(man, fh, indent=1)
    print("MANIFEST.json: %d checks, %d not claimed" % (len(checks), len(na)))


if __name__ == "__main__":
    main()
