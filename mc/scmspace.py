"""Linear-SCM alphabet shared by C01, C04, C06: DAG patterns x weight labelings x parameter
configurations x every assignment of a subset of {do, noise, shift} to every variable."""
import itertools

import numpy as np

from mc.refmodel import graphs as G
from mc.spaces import dag_matrix

MEANS_F = [0.5, -1.25, 2.0, -0.75, 1.5, 0.25, -2.0, 1.0, -0.5, 3.0]
VARS_F = [0.5, 2.0, 1.25, 0.75, 3.0, 1.5, 0.25, 2.5, 1.0, 0.5]
MEANS_I = [1, -2, 3, 0, -1, 2, -3, 1, 0, 4]
VARS_I = [1, 2, 3, 1, 2, 1, 3, 2, 1, 2]

# distinct dyadic parameters per (variable, intervention type)
DO = {j: (1.5 + j, 0.25 * (j + 1)) for j in range(10)}
NOISE = {j: (-0.5 - 0.5 * j, 0.5 + 0.25 * j) for j in range(10)}
SHIFT = {j: (0.25 + 0.125 * j, 0.125 + 0.25 * j) for j in range(10)}
# integer-valued parameters for the int style
DO_I = {j: (2 + j, 1 + j) for j in range(10)}
NOISE_I = {j: (-1 - j, 2 + j) for j in range(10)}
SHIFT_I = {j: (3 + j, 1 + 2 * j) for j in range(10)}


def model(p, ch, lab, cfg):
    """cfg: 'float' | 'floatzero' (one zero variance) | 'int' (int64 W, means, variances) | 'intW' (int W only)."""
    if cfg == "int":
        W = dag_matrix(p, ch, "int" if lab != "cancel" else "cancel", int)
        return W, np.array(MEANS_I[:p], dtype=np.int64), np.array(VARS_I[:p], dtype=np.int64)
    if cfg == "intW":
        W = dag_matrix(p, ch, "int" if lab != "cancel" else "cancel", int)
        return W, np.array(MEANS_F[:p]), np.array(VARS_F[:p])
    W = dag_matrix(p, ch, lab, float)
    var = np.array(VARS_F[:p])
    if cfg == "floatzero":
        var = var.copy()
        var[p - 1] = 0.0
    return W, np.array(MEANS_F[:p]), var


def assignment_dicts(p, assign, style="tuple"):
    """assign: tuple of p ints in 0..7 (bit 1 = do, 2 = noise, 4 = shift).  Returns
    (do, noise, shift) dicts as passed to the library, and the same as {t: (mean, var)} for the oracle."""
    lib = ({}, {}, {})
    ora = ({}, {}, {})
    rev = style.endswith("-rev")          # same interventions, dict keys inserted in descending order
    if rev:
        style = style[:-4]
    tabs = (DO, NOISE, SHIFT) if style in ("tuple", "float") else (DO_I, NOISE_I, SHIFT_I)
    for t in (range(p - 1, -1, -1) if rev else range(p)):
        for k in range(3):
            if assign[t] >> k & 1:
                m, v = tabs[k][t]
                if style in ("tuple", "inttuple"):
                    lib[k][t] = (m, v)
                    ora[k][t] = (m, v)
                elif style == "float":
                    lib[k][t] = float(m)
                    ora[k][t] = (m, 0)
                else:                       # 'int': bare Python int => point mass
                    lib[k][t] = int(m)
                    ora[k][t] = (m, 0)
    return lib, ora


def all_assignments(p, positive_only=False):
    return itertools.product(range(8), repeat=p)


def dag_list(p):
    out = []
    for code in G.dag_codes(p):
        ch, _ = G.decode(p, code)
        out.append((code, ch))
    return out
