"""C04 - finite samples follow the population law (E2, basis mode).

The harness owns numpy's RNG.  For Gaussian sampling the output X is an affine function of the
standard-normal cells z it consumes; running the real sampler with z = 0 and with every unit vector
gives X(0) and the responses R_c, hence the exact law of the n x p output:
mean = X(0), Cov(vec X) = sum_c vec(R_c) vec(R_c)^T.  "n i.i.d. rows with the population law" is the
identity X(0) = 1 mu^T and Cov(vec X) = I_n (x) Sigma.
"""
import itertools

import numpy as np

import sempler
import sempler.noise as noise

from mc.run import Acc
from mc.env import tape
from mc.refmodel import graphs as G
from mc import scmspace as SP
from mc.spaces import split_list

ID = "C04"
MANIFEST = {"engine": "E2"}
_TIER = ["quick"]


def prepare(tier, seed):
    _TIER[0] = tier


def lower_B(p):
    offs = [(i, j) for i in range(p) for j in range(i + 1)]
    for vals in itertools.product((-1, 0, 1), repeat=len(offs)):
        B = [[0] * p for _ in range(p)]
        for (i, j), v in zip(offs, vals):
            B[i][j] = v
        yield B


def units(tier, seed):
    out = []
    for p in (1, 2, 3):
        Bs = list(lower_B(p))
        for part in split_list(Bs, 12 if p == 3 else 1):
            out.append({"stage": "nd", "p": p, "Bs": part})
    for p in (1, 2, 3):
        dags = [c for c, _ in SP.dag_list(p)]
        for part in split_list(dags, 25 if p == 3 else 1):
            out.append({"stage": "lganm", "p": p, "codes": part})
            out.append({"stage": "anm", "p": p, "codes": part})
    out.append({"stage": "large"})
    out += [{"stage": "anm-wide", "k": k, "n": 8} for k in range(8)]
    if tier == "thorough":
        dags = [c for c, _ in SP.dag_list(4)][::3]
        for part in split_list(dags, 181):
            out.append({"stage": "lganm", "p": 4, "codes": part, "light": True})
        for part in split_list(dags[::2], 91):
            out.append({"stage": "anm", "p": 4, "codes": part, "light": True})
    return out


def law_of(sampler, n, p):
    """Exact law of the n x p output of `sampler()` as an affine function of the normal cells.
    -> (res dict from affine_response, first-run exception or None)"""
    def run(z):
        with tape.Tape(normal_values=z) as tp:
            out = sampler()
        # draws other than standard normals (uniform-based samplers, discrete choices) are outside the affine analysis:
        # counted as unmodelled, which makes the configuration undecided rather than judged
        return np.asarray(out, dtype=float), tp.n_normal(), tp.unmodelled + len(tp.points)
    return tape.affine_response(run)


def compare(res, n, p, mean, cov, d, tag, zero_cols=()):
    """res vs the population law (mean, cov). -> fails"""
    base = res["base"]
    if base.shape != (n, p):
        return [("%s:shape" % tag, "%s returned shape %s, expected (%d, %d)" % (d, base.shape, n, p))]
    if n == 0:
        return []
    scale = max(1.0, float(np.max(np.abs(mean))), float(np.max(np.abs(cov))))
    fails = []
    if not np.allclose(base, np.tile(mean, (n, 1)), rtol=0, atol=1e-8 * scale):
        fails.append(("%s:mean" % tag, "%s: with all standard normals 0 the rows are %s, population mean %s" % (d, base[0].tolist(), np.asarray(mean).tolist())))
    R = res["R"]
    C = R.T @ R
    want = np.kron(np.eye(n), cov)
    if not np.allclose(C, want, rtol=0, atol=1e-7 * scale):
        blk = C[:p, :p]
        off = C[:p, p:2 * p] if n > 1 else None
        if not np.allclose(blk, cov, rtol=0, atol=1e-7 * scale):
            fails.append(("%s:covariance" % tag, "%s: exact covariance of a sampled row is %s, population covariance %s" % (d, np.round(blk, 6).tolist(), np.round(cov, 6).tolist())))
        else:
            fails.append(("%s:rows-not-iid" % tag, "%s: rows are not independent / identically distributed (cross-row covariance %s)" % (d, None if off is None else np.round(off, 6).tolist())))
    for j in zero_cols:
        if np.max(np.abs(R[:, j::p]), initial=0) > 1e-7 * scale or np.max(np.abs(base[:, j] - mean[j])) > 1e-7 * scale:
            fails.append(("%s:point-mass" % tag, "%s: column %d of a variance-0 target is not constant" % (d, j)))
    return fails


def check_nd(p, B, mu, n, rs, check_valid="ignore"):
    S = (np.array(B, dtype=float) @ np.array(B, dtype=float).T)
    d = "NormalDistribution(mean=%s, cov=%s%s).sample(%d, random_state=%r)" % (mu, S.tolist(), "" if check_valid == "ignore" else ", check_valid=%r" % check_valid, n, rs)
    try:
        dist = sempler.NormalDistribution(np.array(mu, dtype=float), S, check_valid=check_valid)
    except Exception as e:
        return [("nd:constructor-raises", "%s raised %r for a positive-definite covariance" % (d, e))], 0, True
    try:
        res = law_of(lambda: dist.sample(n, random_state=rs), n, p)
    except tape.TapeError:
        raise
    except Exception as e:
        return [("nd:raises", "%s raised %r" % (d, e))], 0, True
    if res["unmodelled"] or not res["affine_ok"]:
        return [], res["executions"], False
    return compare(res, n, p, np.array(mu, dtype=float), S, d, "nd"), res["executions"], True


def check_lganm(p, code, lab, cfg, assign, style, n, rs):
    ch, _ = G.decode(p, code)
    W, means, variances = SP.model(p, ch, lab, cfg)
    lib, ora = SP.assignment_dicts(p, assign, style)
    model = sempler.LGANM(W, means, variances)
    kw = dict(do_interventions=dict(lib[0]), noise_interventions=dict(lib[1]), shift_interventions=dict(lib[2]))
    d = "LGANM(W=%s, means=%s, variances=%s).sample(%d, do=%s, noise=%s, shift=%s, random_state=%r)" % (
        W.tolist(), means.tolist(), variances.tolist(), n, lib[0], lib[1], lib[2], rs)
    try:
        pop = model.sample(population=True, **kw)
        res = law_of(lambda: model.sample(n, random_state=rs, **kw), n, p)
    except tape.TapeError:
        raise
    except Exception as e:
        return [("lganm:raises", "%s raised %r" % (d, e))], 0, True
    if res["unmodelled"] or not res["affine_ok"]:
        return [], res["executions"], False
    zero = [j for j in range(p) if abs(pop.covariance[j, j]) < 1e-300]
    return compare(res, n, p, np.asarray(pop.mean, dtype=float), np.asarray(pop.covariance, dtype=float), d, "lganm", zero), res["executions"], True


def build_anm(p, W, means, variances):
    assignments = []
    for j in range(p):
        pa = [i for i in range(p) if W[i, j] != 0]
        if not pa:
            assignments.append(None)
        else:
            w = np.array([W[i, j] for i in pa], dtype=float)
            assignments.append(lambda x, w=w: x @ w)
    noises = [noise.normal(float(means[j]), float(variances[j])) for j in range(p)]
    return sempler.ANM(W, assignments, noises)


def check_anm(p, code, lab, assign, style, n, rs, ch=None):
    if ch is None:
        ch, _ = G.decode(p, code)
    W, means, variances = SP.model(p, ch, lab, "float")
    lib, ora = SP.assignment_dicts(p, assign, "tuple" if style == "callable" else "float")
    d = "ANM(W=%s, linear assignments, normal noise means=%s variances=%s).sample(%d, do=%s, noise=%s, shift=%s) vs LGANM" % (
        W.tolist(), means.tolist(), variances.tolist(), n, lib[0], lib[1], lib[2])

    def conv(dct):
        out = {}
        for t, v in dct.items():
            if isinstance(v, tuple):
                out[t] = noise.normal(v[0], v[1])
            else:
                out[t] = (lambda c: (lambda m: np.full(m, c)))(float(v))
        return out
    try:
        pop = sempler.LGANM(W, means, variances).sample(population=True, do_interventions=dict(lib[0]),
                                                         noise_interventions=dict(lib[1]), shift_interventions=dict(lib[2]))
        anm = build_anm(p, W, means, variances)
        akw = dict(do_interventions=conv(lib[0]), noise_interventions=conv(lib[1]), shift_interventions=conv(lib[2]))
        res = law_of(lambda: anm.sample(n, random_state=rs, **akw), n, p)
    except tape.TapeError:
        raise
    except Exception as e:
        return [("anm:raises", "%s raised %r" % (d, e))], 0, True
    if res["unmodelled"] or not res["affine_ok"]:
        return [], res["executions"], False
    return compare(res, n, p, np.asarray(pop.mean, dtype=float), np.asarray(pop.covariance, dtype=float), d, "anm"), res["executions"], True


BIGN = (1000, 100000)


def bign_samplers():
    """[(name, sampler(n, rs), mean, cov)] - three fixed 3-variable models for the large-request stage (real numpy)."""
    code3 = SP.dag_list(3)[-1][0]
    ch, _ = G.decode(3, code3)
    W, means, variances = SP.model(3, ch, "generic", "float")
    lib, ora = SP.assignment_dicts(3, (1, 4, 2), "tuple")
    kw = dict(do_interventions=dict(lib[0]), noise_interventions=dict(lib[1]), shift_interventions=dict(lib[2]))
    model = sempler.LGANM(W, means, variances)
    pop = model.sample(population=True, **kw)
    out = [("LGANM(W=%s).sample(n, do=%s, noise=%s, shift=%s, random_state=rs)" % (W.tolist(), lib[0], lib[1], lib[2]),
            lambda n, rs: model.sample(n, random_state=rs, **kw), np.asarray(pop.mean, dtype=float), np.asarray(pop.covariance, dtype=float))]
    pop0 = model.sample(population=True)
    anm = build_anm(3, W, means, variances)
    out.append(("ANM(W=%s, linear assignments, normal noise).sample(n, random_state=rs)" % (W.tolist(),),
                lambda n, rs: anm.sample(n, random_state=rs), np.asarray(pop0.mean, dtype=float), np.asarray(pop0.covariance, dtype=float)))
    B = np.array([[1, 0, 0], [-1, 1, 0], [1, 1, 0.5]], dtype=float)
    mu = np.array([1.5, -2.25, 0.5])
    dist = sempler.NormalDistribution(mu, B @ B.T)
    out.append(("NormalDistribution(mean=%s, cov=%s).sample(n, random_state=rs)" % (mu.tolist(), (B @ B.T).tolist()), lambda n, rs: dist.sample(n, random_state=rs), mu, B @ B.T))
    return out


def check_bign(idx, n, rs):
    """Large requests with the real generator: shape, reproducibility, and first / second moments within 10 / 12 standard errors of the
    population law (a fixed, enumerated set of executions; under the specified law each bound fails with probability < 1e-20)."""
    name, sampler, mean, cov = bign_samplers()[idx]
    d = name.replace("(n,", "(%d," % n).replace("random_state=rs", "random_state=%d" % rs)
    try:
        X = np.asarray(sampler(n, rs), dtype=float)
        X2 = np.asarray(sampler(n, rs), dtype=float)
    except Exception as e:
        return [("bign:raises", "%s raised %r" % (d, e))]
    p = len(mean)
    if X.shape != (n, p):
        return [("bign:shape", "%s returned shape %s, expected (%d, %d)" % (d, X.shape, n, p))]
    fails = []
    if not np.array_equal(X, X2):
        fails.append(("bign:not-reproducible", "%s twice: %d of %d rows differ" % (d, int(np.sum(np.any(X != X2, axis=1))), n)))
    m = X.mean(axis=0)
    C = np.cov(X, rowvar=False)
    for j in range(p):
        if abs(m[j] - mean[j]) > 10 * np.sqrt(cov[j, j] / n) + 1e-9:
            fails.append(("bign:mean", "%s: sample mean of variable %d is %r, population mean %r (more than 10 standard errors away)" % (d, j, float(m[j]), float(mean[j]))))
        for i in range(j + 1):
            if abs(C[i, j] - cov[i, j]) > 12 * np.sqrt((cov[i, i] * cov[j, j] + cov[i, j] ** 2) / n) + 1e-9:
                fails.append(("bign:covariance", "%s: sample covariance (%d,%d) is %r, population %r (more than 12 standard errors away)" % (d, i, j, float(C[i, j]), float(cov[i, j]))))
    return fails[:3]


def absorb(acc, kind, case, fails, nexec, decided, nontrivial):
    acc.states += 1
    acc.traces += max(1, nexec)
    acc.transitions += max(1, nexec)
    if not decided:
        acc.undecided += 1
    if nontrivial:
        acc.nontrivial += 1
    for sig, msg in fails:
        acc.fail(kind, case, sig, msg)


def run_unit(unit):
    acc = Acc()
    st = unit["stage"]
    if st == "nd":
        p = unit["p"]
        for B in unit["Bs"]:
            for mu in ([0.0] * p, [1.5, -2.25, 0.5][:p]):
                for n in (0, 1, 2, 3):
                    for rs in (None, 0, 1):
                        if n == 3 and rs == 1:
                            continue
                        f, ne, dec = check_nd(p, B, mu, n, rs)
                        absorb(acc, "nd", {"p": p, "B": B, "mu": mu, "n": n, "rs": rs}, f, ne, dec, n > 0 and any(B[i][j] for i in range(p) for j in range(i)))
                        acc.extra["nd_configs"] += 1
                        acc.outcome(["nd", B, n])
                        if n == 2 and rs == 0 and all(B[i][i] for i in range(p)):        # positive definite: the validating constructors too
                            for cv in ("raise", "warn"):
                                f, ne, dec = check_nd(p, B, mu, n, rs, cv)
                                absorb(acc, "nd", {"p": p, "B": B, "mu": mu, "n": n, "rs": rs, "cv": cv}, f, ne, dec, True)
                                acc.extra["nd_configs_check_valid"] += 1
            if len(acc.samples) < 1 and p == 3 and B[2][2] == 0 and B[1][0]:
                acc.sample({"sampler": "NormalDistribution.sample", "B (cov = B B^T, singular)": B, "n": [0, 1, 2, 3]})
    elif st == "lganm":
        p = unit["p"]
        light = unit.get("light")
        for code in unit["codes"]:
            if light:
                combos = (("generic", "float", "tuple"),)
            elif _TIER[0] == "quick":
                combos = (("generic", "float", "tuple-rev"), ("cancel", "floatzero", "float"))
            else:
                combos = tuple((l, c, s) for l, c in (("generic", "float"), ("cancel", "floatzero")) for s in ("tuple", "float", "tuple-rev"))
            for lab, cfg, style in combos:
                if True:
                    for assign in itertools.product(range(8), repeat=p):
                        if light and sum(1 for a in assign if a) > 2:
                            continue
                        n = 1 + (sum(assign) % 2)
                        rs = None if sum(assign) % 3 else 0
                        f, ne, dec = check_lganm(p, code, lab, cfg, assign, style, n, rs)
                        absorb(acc, "lganm", {"p": p, "code": code, "lab": lab, "cfg": cfg, "assign": list(assign), "style": style, "n": n, "rs": rs},
                               f, ne, dec, any(assign))
                        acc.extra["lganm_configs_p%d" % p] += 1
                        acc.outcome(["lganm", code, cfg, assign[:2], n])
            if len(acc.samples) < 1 and G.nedges(p, code) >= 2:
                acc.sample({"sampler": "LGANM.sample", "dag_code": code, "assignments": "all 8^p", "n": [1, 2]})
    elif st == "anm":
        p = unit["p"]
        light = unit.get("light")
        for code in unit["codes"]:
            if light:
                combos = (("generic", "callable"),)
            elif _TIER[0] == "quick":
                combos = (("generic", "callable"), ("cancel", "constant"))
            else:
                combos = tuple((l, s) for l in ("generic", "cancel") for s in ("callable", "constant"))
            for lab, style in combos:
                if True:
                    for assign in itertools.product((0, 1, 2, 3, 4, 5, 7), repeat=p):
                        if light and sum(1 for a in assign if a) > 2:
                            continue
                        n = 1 + (sum(assign) % 2)
                        rs = None if sum(assign) % 3 else 0
                        f, ne, dec = check_anm(p, code, lab, assign, style, n, rs)
                        absorb(acc, "anm", {"p": p, "code": code, "lab": lab, "assign": list(assign), "style": style, "n": n, "rs": rs}, f, ne, dec, any(assign))
                        acc.extra["anm_configs_p%d" % p] += 1
                        acc.outcome(["anm", code, assign[:2], n])
    elif st == "anm-wide":
        # 10-node colliders whose parents mix node indices below and above 8 (set iteration order of the parents)
        from mc.checks import _g
        fam = _g.wide_targeted()
        for k in range(unit["k"], len(fam), unit["n"]):
            for lab, assign_sparse in (("generic", {}), ("generic", {4: 1, 8: 4}), ("cancel", {0: 2})):
                assign = tuple(assign_sparse.get(j, 0) for j in range(_g.WIDE_P))
                f, ne, dec = check_anm(_g.WIDE_P, None, lab, assign, "callable", 1, None, ch=fam[k])
                absorb(acc, "anm-wide", {"k": k, "lab": lab, "assign": list(assign)}, f, ne, dec, True)
                acc.extra["anm_wide_configs"] += 1
                acc.outcome(["anm-wide", k, lab])
    else:
        # the "all sample sizes" direction: a few larger n
        code3 = SP.dag_list(3)[-1][0]
        for n in (10, 50):
            f, ne, dec = check_lganm(3, code3, "generic", "float", (1, 4, 2), "tuple", n, 0)
            absorb(acc, "lganm", {"p": 3, "code": code3, "lab": "generic", "cfg": "float", "assign": [1, 4, 2], "style": "tuple", "n": n, "rs": 0}, f, ne, dec, True)
            f, ne, dec = check_anm(3, code3, "generic", (0, 5, 2), "callable", n, None)
            absorb(acc, "anm", {"p": 3, "code": code3, "lab": "generic", "assign": [0, 5, 2], "style": "callable", "n": n, "rs": None}, f, ne, dec, True)
            B = [[1, 0, 0], [-1, 1, 0], [1, 1, 0]]
            f, ne, dec = check_nd(3, B, [1.5, -2.25, 0.5], n, 1)
            absorb(acc, "nd", {"p": 3, "B": B, "mu": [1.5, -2.25, 0.5], "n": n, "rs": 1}, f, ne, dec, True)
            acc.extra["large_n_configs"] += 3
        for idx in range(3):
            for n in BIGN:
                for rs in (0, 1):
                    f = check_bign(idx, n, rs)
                    absorb(acc, "bign", {"idx": idx, "n": n, "rs": rs}, f, 2, True, True)
                    acc.extra["real_rng_large_requests"] += 1
    return acc.out()


def replay(kind, case):
    if kind == "anm-wide":
        from mc.checks import _g
        return check_anm(_g.WIDE_P, None, case["lab"], tuple(case["assign"]), "callable", 1, None, ch=_g.wide_targeted()[case["k"]])[0]
    if kind == "bign":
        return check_bign(case["idx"], case["n"], case["rs"])
    if kind == "nd":
        return check_nd(case["p"], case["B"], case["mu"], case["n"], case["rs"], case.get("cv", "ignore"))[0]
    if kind == "lganm":
        return check_lganm(case["p"], case["code"], case["lab"], case["cfg"], tuple(case["assign"]), case["style"], case["n"], case["rs"])[0]
    return check_anm(case["p"], case["code"], case["lab"], tuple(case["assign"]), case["style"], case["n"], case["rs"])[0]


def describe(tier, seed):
    return {
        "technique": "harness-owned numpy.random, basis mode: the real sampler is executed with all standard-normal cells 0 and with every unit vector "
                     "(exhaustive over the cells consumed) plus affinity probes; the exact law of the output follows algebraically",
        "rule": "NormalDistribution.sample for every cov = B B^T with lower-triangular B over {-1,0,1} (singular ones included), p<=3, 2 means, n in 0..3, random_state "
                "in {None,0,1}; LGANM.sample for every DAG p<=3 x {generic float, cancelling weights + a zero variance} x all 8^p intervention assignments x {tuple, scalar} "
                "styles (n in {1,2}); ANM with linear assignments and noise.normal for every DAG p<=3 x 2 labelings x all 7^p assignments without a bare shift+noise "
                "overlap x {noise.normal callables, constants}: law must equal the LGANM population law under the same interventions; n in {10, 50} spot "
                "configurations; 80 targeted 10-node colliders whose parents mix node indices below and above 8 (ANM vs LGANM); thorough adds every third 4-node DAG with <=2 intervened variables. Oracle: shape (n,p); X(0) = 1 mu_pop^T; sum_c vec R_c vec R_c^T = "
                "I_n (x) Sigma_pop; variance-0 targets constant. mu_pop, Sigma_pop are sample(population=True) under the same interventions. Large requests (n in {1000, 100000}, real numpy, seeds 0 and 1, three 3-variable models): shape, reproducible, sample mean / covariance within 10 / 12 standard errors of the population law. non-trivial: intervened / correlated",
        "exhaustive": True,
        "bounds": {"p_max": 4 if tier == "thorough" else 3, "n_exhaustive": 3, "n_spot": [10, 50]},
        "assumptions": ["numpy's standard_normal yields i.i.d. N(0,1): the 1/sqrt(n) rate is then a theorem, nothing is estimated",
                        "an output that is not affine in the normal cells, or unmodelled RNG calls, are reported as undecided, not as violations"],
    }
