"""C12 - sampled intervention targets respect size, range and disjointness (E2 branching)."""
import itertools

import numpy as np

import sempler.generators as gen

from mc.run import Acc
from mc.env import tape

ID = "C12"
MANIFEST = {"engine": "E2"}
_TIER = ["quick"]
_SEED = [0]


def prepare(tier, seed):
    _TIER[0] = tier
    _SEED[0] = seed


def configs(p):
    sizes = list(range(0, p + 2))
    sizes += [(lo, hi) for lo in range(0, p + 2) for hi in range(lo, p + 2)]
    sizes += [(1,), (0, 1, 2), ()]
    out = []
    for K in range(0, p + 2):
        for size in sizes:
            for replace in (True, False):
                out.append({"p": p, "K": K, "size": list(size) if isinstance(size, tuple) else size, "replace": replace})
    return out


def units(tier, seed):
    out = []
    for p in (1, 2, 3, 4) + ((5,) if tier == "thorough" else ()):
        cs = configs(p)
        n = 1 if p <= 2 else (8 if p == 3 else 32)
        for k in range(n):
            out.append({"p": p, "configs": cs[k::n]})
    return out


def expected_error(cfg):
    p, K, size, replace = cfg["p"], cfg["K"], cfg["size"], cfg["replace"]
    if isinstance(size, list):
        if len(size) != 2:
            return True
        mx = size[1]
    else:
        mx = size
    return mx > p or ((not replace) and mx * K > p)


def size_arg(cfg):
    return tuple(cfg["size"]) if isinstance(cfg["size"], list) else cfg["size"]


def judge(cfg, result):
    """result: ('ok', value) | ('exc', name, repr). Returns list of (sig, msg)."""
    p, K, replace = cfg["p"], cfg["K"], cfg["replace"]
    desc = "intervention_targets(p=%d, K=%d, size=%r, replace=%s)" % (p, K, size_arg(cfg), replace)
    err = expected_error(cfg)
    if result[0] == "exc":
        if not err:
            return [("spurious-error", "%s raised %s although the request is feasible" % (desc, result[2]))]
        if result[1] != "ValueError":
            return [("wrong-exception", "%s raised %s, ValueError expected" % (desc, result[2]))]
        return []
    if err:
        return [("no-error", "%s returned %r, ValueError expected" % (desc, result[1]))]
    val = result[1]
    out = []
    try:
        ivs = [[int(v) for v in iv] for iv in val]
    except Exception:
        return [("malformed", "%s returned %r" % (desc, val))]
    if len(ivs) != K:
        out.append(("wrong-count", "%s returned %d interventions: %r" % (desc, len(ivs), ivs)))
    lo, hi = (cfg["size"] if isinstance(cfg["size"], list) else (cfg["size"], cfg["size"]))
    for iv in ivs:
        if len(set(iv)) != len(iv):
            out.append(("repeated-variable", "%s: intervention %r repeats a variable" % (desc, iv)))
        if any(v < 0 or v >= p for v in iv):
            out.append(("out-of-range-variable", "%s: intervention %r outside 0..%d" % (desc, iv, p - 1)))
        if not (lo <= len(iv) <= hi):
            out.append(("wrong-size", "%s: intervention %r has size %d outside [%d, %d]" % (desc, iv, len(iv), lo, hi)))
    if not replace:
        allv = [v for iv in ivs for v in iv]
        if len(set(allv)) != len(allv):
            out.append(("not-disjoint", "%s: %r reuses a variable across interventions" % (desc, ivs)))
    return out[:3]


def execute(cfg, answers, seed_arg):
    with tape.Tape(answers=answers) as tp:
        try:
            r = ("ok", gen.intervention_targets(cfg["p"], cfg["K"], size_arg(cfg), replace=cfg["replace"], random_state=seed_arg))
        except tape.TapeError:
            raise
        except Exception as e:
            r = ("exc", type(e).__name__, repr(e)[:200])
    return r, tp


def explore_config(cfg, acc, tier):
    seen_sizes, seen_vars = set(), set()
    seed_arg = 0 if (cfg["K"] + cfg["p"]) % 2 else None
    fails = []
    stats = {"exec": 0, "unmodelled": 0}

    def run(prefix):
        r, tp = execute(cfg, prefix, seed_arg)
        stats["exec"] += 1
        acc.states += 1
        acc.traces += 1
        acc.transitions += len(tp.points)
        if tp.unmodelled:
            acc.undecided += 1
            stats["unmodelled"] += 1
        else:
            f = judge(cfg, r)
            for sig, msg in f:
                fails.append(("exec", {"cfg": cfg, "answers": list(prefix), "seed_arg": seed_arg}, sig, msg + " [answers %s]" % list(prefix)))
        if r[0] == "ok":
            try:
                for iv in r[1]:
                    seen_sizes.add(len(iv))
                    seen_vars.update(int(v) for v in iv)
            except Exception:
                pass
            acc.outcome([cfg, [[int(v) for v in iv] for iv in r[1]] if isinstance(r[1], list) else repr(r[1])])
        if any(prefix):
            acc.nontrivial += 1
        return tp.points

    cap = 2500 if tier == "quick" else 12000
    n, capped = tape.explore(run, bound=None, max_exec=cap)
    mode = "complete"
    if capped:
        bound = 2 if tier == "quick" else 3
        n2, capped2 = tape.explore(run, bound=bound, max_exec=40000)
        mode = "deviation<=%d%s" % (bound, "(capped)" if capped2 else "")
    acc.extra["configs_" + mode] += 1
    # across executions: every size of the range and every variable occurs
    # (only when the answer tree was fully modelled; a deviation-bounded walk is enough here because every size / variable is
    # one deviation away for any sequential sampler - if the implementation draws differently the seed-range stage decides)
    if not expected_error(cfg) and cfg["K"] >= 1 and not fails and not stats["unmodelled"] and mode == "complete":
        lo, hi = (cfg["size"] if isinstance(cfg["size"], list) else (cfg["size"], cfg["size"]))
        if seen_sizes != set(range(lo, hi + 1)):
            fails.append(("config", {"cfg": cfg}, "size-never-drawn", "intervention_targets(p=%d,K=%d,size=%r,replace=%s): over all RNG answers the sizes seen are %s, not every size in [%d,%d]" % (
                cfg["p"], cfg["K"], size_arg(cfg), cfg["replace"], sorted(seen_sizes), lo, hi)))
        if hi >= 1 and seen_vars != set(range(cfg["p"])):
            fails.append(("config", {"cfg": cfg}, "variable-never-drawn", "intervention_targets(p=%d,K=%d,size=%r,replace=%s): over all RNG answers only variables %s occur" % (
                cfg["p"], cfg["K"], size_arg(cfg), cfg["replace"], sorted(seen_vars))))
    return fails, mode


def seed_range(cfg, acc, nseeds=300):
    """every seed in [0, nseeds) of the real generator: per-draw oracle + every size of the range and every variable occurs
    (failure probability under the specified law < 1e-25 for p <= 5)."""
    sizes, variables = set(), set()
    for s in range(nseeds):
        try:
            r = ("ok", gen.intervention_targets(cfg["p"], cfg["K"], size_arg(cfg), replace=cfg["replace"], random_state=s))
        except Exception as e:
            r = ("exc", type(e).__name__, repr(e)[:200])
        acc.states += 1
        acc.traces += 1
        acc.transitions += 1
        acc.extra["seed_range_executions"] += 1
        f = judge(cfg, r)
        for sig, msg in f:
            acc.fail("real", {"cfg": cfg, "seed": s}, sig, msg + " [real numpy, random_state=%d]" % s)
        if f or r[0] != "ok":
            return
        for iv in r[1]:
            sizes.add(len(iv))
            variables.update(int(v) for v in iv)
    lo, hi = (cfg["size"] if isinstance(cfg["size"], list) else (cfg["size"], cfg["size"]))
    if cfg["K"] >= 1:
        if sizes != set(range(lo, hi + 1)):
            acc.fail("real-agg", {"cfg": cfg, "nseeds": nseeds}, "size-never-drawn", "intervention_targets(p=%d,K=%d,size=%r,replace=%s): over random_state 0..%d the sizes seen are %s, not every size in [%d,%d]" % (
                cfg["p"], cfg["K"], size_arg(cfg), cfg["replace"], nseeds - 1, sorted(sizes), lo, hi))
        if hi >= 1 and variables != set(range(cfg["p"])):
            acc.fail("real-agg", {"cfg": cfg, "nseeds": nseeds}, "variable-never-drawn", "intervention_targets(p=%d,K=%d,size=%r,replace=%s): over random_state 0..%d only variables %s occur" % (
                cfg["p"], cfg["K"], size_arg(cfg), cfg["replace"], nseeds - 1, sorted(variables)))


def real_rng(cfg, acc, seed):
    if not expected_error(cfg):
        seed_range(cfg, acc)
    for s in (12345, seed):
        try:
            r = ("ok", gen.intervention_targets(cfg["p"], cfg["K"], size_arg(cfg), replace=cfg["replace"], random_state=s))
        except Exception as e:
            r = ("exc", type(e).__name__, repr(e)[:200])
        acc.states += 1
        acc.traces += 1
        acc.transitions += 1
        acc.extra["real_rng_executions"] += 1
        for sig, msg in judge(cfg, r):
            acc.fail("real", {"cfg": cfg, "seed": s}, sig, msg + " [real numpy, random_state=%d]" % s)


def run_unit(unit):
    acc = Acc()
    for cfg in unit["configs"]:
        fails, mode = explore_config(cfg, acc, _TIER[0])
        for kind, case, sig, msg in fails:
            acc.fail(kind, case, sig, msg)
        real_rng(cfg, acc, _SEED[0])
        if len(acc.samples) < 1 and isinstance(cfg["size"], list) and len(cfg["size"]) == 2 and cfg["K"] == 2 and not cfg["replace"]:
            acc.sample({"config": cfg, "exploration": mode})
    return acc.out()


def replay(kind, case):
    if kind == "exec":
        r, tp = execute(case["cfg"], case["answers"], case["seed_arg"])
        return judge(case["cfg"], r)
    if kind == "real-agg":
        acc = Acc(keep_failures=20)
        seed_range(case["cfg"], acc, case["nseeds"])
        return [(f["sig"], f["msg"]) for f in acc.failures if f["kind"] == "real-agg"]
    if kind == "real":
        cfg = case["cfg"]
        try:
            r = ("ok", gen.intervention_targets(cfg["p"], cfg["K"], size_arg(cfg), replace=cfg["replace"], random_state=case["seed"]))
        except Exception as e:
            r = ("exc", type(e).__name__, repr(e)[:200])
        return judge(cfg, r)
    fails, _ = explore_config(case["cfg"], Acc(), _TIER[0])
    return [(sig, msg) for _, _, sig, msg in fails]


def describe(tier, seed):
    return {
        "technique": "exhaustive enumeration of RNG answer sequences (stateless DFS over harness-owned numpy.random choice points) on the real code, over the complete argument grid",
        "rule": "complete grid p in 1..4 (5 thorough) x K in 0..p+1 x size in {0..p+1} + {(lo,hi): 0<=lo<=hi<=p+1} + tuples of length 0,1,3 x replace; per "
                "configuration every answer of every integers/choice cell (complete product when <= %d executions, else all sequences with at most "
                "%d non-default answers - the evidence counts both kinds under stages); oracle per execution: ValueError iff tuple length != 2 or max > p or "
                "(not replace and max*K > p), else K lists of distinct variables with admissible sizes, disjoint without replacement; across executions every "
                "size and every variable occurs (when the answer tree is complete and fully modelled); plus every real-numpy seed in [0,300) per feasible configuration (same oracle and coverage). non-trivial: execution with at least one non-default answer" % (
                    2500 if tier == "quick" else 12000, 2 if tier == "quick" else 3),
        "exhaustive": False,
        "bounds": {"p_max": 5 if tier == "thorough" else 4, "deviation_bound_when_capped": 2 if tier == "quick" else 3},
        "assumptions": ["configurations whose answer tree exceeds the execution cap are explored to the stated deviation bound only (counted as configs_deviation<=d in stages); exhaustive below it",
                        "negative sizes and lo > hi are outside the quantifier"],
    }
