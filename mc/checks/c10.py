"""C10 - interventional equivalence classes and I-CPDAGs are exact (E1)."""
import numpy as np

import sempler.utils as U

from mc.run import Acc
from mc.refmodel import graphs as G
from mc.checks import _g
from mc.spaces import split_list

ID = "C10"
MANIFEST = {"engine": "E1"}
LABS = ("bin", "cancel", "generic")


def prepare(tier, seed):
    for p in (1, 2, 3, 4, 5):
        G.dag_groups(p)


def units(tier, seed):
    out = []
    for p in (0, 1, 2, 3):
        out += _g.dag_units("dagI", p, 1)
        out += _g.pdag_units("pdagI", p, 1)
    out += _g.dag_units("dagI", 4, 16)
    out += _g.pdag_units("pdagI", 4, 16)
    for p in range(2, 8 if tier == "quick" else 11):
        out.append({"stage": "chain", "p": p})
    if tier == "quick":
        out += [{"stage": "dagI", "p": 5, "codes": c} for c in split_list(_g.sparse_codes(5, 3, (1, 2)), 16)]
        # every 128th of the 29,281 5-node DAGs (dense ones included, where Meek rules 3 and 4 fire) x all 32 target sets: a fixed stride
        out += [{"stage": "dagI", "p": 5, "codes": c, "nochain": True} for c in split_list(G.dag_codes(5)[::128], 16)]
    else:
        out += _g.dag_units("dagI", 5, 256)
        out += [{"stage": "pdagI", "p": 5, "codes": c} for c in split_list(_g.sparse_codes(5, 4, (1, 2, 3)), 32)]
    W = _g.WIDE_P
    out += [{"stage": "dagI", "p": W, "codes": c} for c in split_list(_g.wide_sparse_codes("dag", 1 if tier == "quick" else 2), 16)]
    out.append({"stage": "dagI", "p": W, "codes": [G.encode(W, ch, [0] * W) for ch in _g.wide_targeted()]})
    out.append({"stage": "dagI", "p": _g.BIG_P, "codes": _g.big_codes("dag")})        # 70 nodes, edges on node indices >= 64
    out.append({"stage": "pdagI-big", "p": _g.BIG_P, "codes": _g.big_codes("pdag")})
    return out


def iclass(p, ch, targets, cls):
    pa = G.parents(p, ch)
    out = []
    for g in cls:
        pg = G.parents(p, g)
        if all(pg[t] == pa[t] for t in targets):
            out.append(g)
    return out


def check_dag_I(p, ch, lab, targets, chain_too=True):
    fails = []
    cls = _g.mec_ref(p, tuple(ch))
    icl = iclass(p, ch, targets, cls)
    want = _g.dags_pats(p, icl)
    A = _g.np_dag(p, ch, lab)
    I = set(targets)
    ncalls = 0
    for kw in (({}, {"check_chain": False}) if chain_too else ({},)):
        r = _g.call(U.imec, A.copy(), set(I), **kw)
        ncalls += 1
        name = "imec" + ("(check_chain=False)" if kw else "")
        if r[0] != "ok":
            fails.append(("imec:raises", "%s(%s, %s) raised %s" % (name, A.tolist(), sorted(I), r[2])))
            continue
        got = _g.pats(r[1])
        if got != want:
            sig = "imec:duplicate" if len(set(got)) < len(got) else ("imec:missing" if set(got) < set(want) else ("imec:extra" if set(got) > set(want) else "imec:wrong"))
            fails.append((sig, "%s(%s, I=%s) returned %d graph(s); the I-class has %d; missing %s, extra %s" % (
                name, A.tolist(), sorted(I), len(got), len(want), sorted(set(want) - set(got))[:2], sorted(set(got) - set(want))[:2])))
    uch, uund = G.union_graph(p, icl)
    wantP = _g.pdag_pat(p, uch, uund)
    r = _g.call(U.dag_to_icpdag, A.copy(), set(I))
    ncalls += 1
    if r[0] != "ok":
        fails.append(("dag_to_icpdag:raises", "dag_to_icpdag(%s, %s) raised %s" % (A.tolist(), sorted(I), r[2])))
    else:
        got = G.pattern(np.asarray(r[1]).tolist())
        if got != wantP:
            _, gch, gund = G.from_matrix(got)
            sig = "dag_to_icpdag:over-oriented" if any(gch[i] & ~uch[i] for i in range(p)) else "dag_to_icpdag:under-oriented"
            fails.append((sig, "dag_to_icpdag(%s, I=%s) = %s, the essential graph of the %d-member I-class is %s" % (
                A.tolist(), sorted(I), got, len(icl), wantP)))
    return fails, len(cls), len(icl), ncalls


def check_pdag_I(p, code, targets, lab="pdag"):
    ch, und = G.decode(p, code)
    if not G.is_acyclic(p, ch):
        return None
    fails = []
    P = _g.pdag_any(p, ch, und, lab)
    I = set(targets)
    r = _g.call(U.pdag_to_icpdag, P.copy(), set(I))
    und_at_target = any(und[t] for t in targets)
    E = _g.exts(p, ch, und)
    if und_at_target:
        if r[0] == "ok" or r[1] != "ValueError":
            fails.append(("pdag_to_icpdag:no-error-undirected-at-target", "pdag_to_icpdag(%s, I=%s) -> %s; a target has an undirected edge, ValueError expected" % (
                P.tolist(), sorted(I), (np.asarray(r[1]).tolist() if r[0] == "ok" else r[2]))))
    elif not E:
        if r[0] == "ok" or r[1] != "ValueError":
            fails.append(("pdag_to_icpdag:no-error-without-extension", "pdag_to_icpdag(%s, I=%s) -> %r; no consistent extension exists" % (P.tolist(), sorted(I), r[1:])))
    else:
        cls = _g.mec_ref(p, E[0])
        icl = iclass(p, list(E[0]), targets, cls)
        uch, uund = G.union_graph(p, icl)
        want = _g.pdag_pat(p, uch, uund)
        if r[0] != "ok":
            fails.append(("pdag_to_icpdag:spurious-error", "pdag_to_icpdag(%s, I=%s) raised %s" % (P.tolist(), sorted(I), r[2])))
        elif G.pattern(np.asarray(r[1]).tolist()) != want:
            fails.append(("pdag_to_icpdag:wrong", "pdag_to_icpdag(%s, I=%s) = %s, expected %s" % (P.tolist(), sorted(I), G.pattern(np.asarray(r[1]).tolist()), want)))
    return fails, und_at_target, len(E)


def run_unit(unit):
    acc = Acc()
    p, st = unit["p"], unit["stage"]
    if st == "chain":
        ch = _g.chain_ch(p)
        for m in range(1 << p):
            targets = G.bits(m)
            fails, ncls, nicl, ncalls = check_dag_I(p, ch, "bin", targets)
            acc.states += 1
            acc.transitions += ncalls
            acc.traces += 1
            acc.nontrivial += 1
            acc.extra["chain_pairs"] += 1
            acc.outcome(["chain", ncls, nicl])
            for sig, msg in fails:
                acc.fail("chain", {"p": p, "I": targets}, sig, msg)
    elif st == "dagI":
        labs = LABS if p <= 4 else ("bin",)
        for code in unit["codes"]:
            ch, und = G.decode(p, code)
            if any(und) or not G.is_acyclic(p, ch):
                continue
            if p <= 5:
                masks = range(1 << p)
            else:       # wide graphs: no target, every single node carrying an edge, all of them, all nodes
                active = [i for i in range(p) if G.adjacency(p, ch, und)[i]]
                masks = sorted(set([0, (1 << p) - 1, sum(1 << i for i in active)] + [1 << i for i in active]))
            labs_here = labs
            if p <= 3:
                labs_here = tuple(labs) + ("tiny",) + tuple(_g.sign_labs(p, ch))
            for m in masks:
                targets = G.bits(m)
                for lab in labs_here:
                    fails, ncls, nicl, ncalls = check_dag_I(p, ch, lab, targets, chain_too=not unit.get("nochain") and not (p == 4 and lab != "bin"))
                    acc.states += 1
                    acc.transitions += ncalls
                    acc.traces += 1
                    acc.extra["dagI_pairs_p%d" % p] += 1
                    if ncls > 1 and 0 < len(targets) < p:
                        acc.nontrivial += 1
                    acc.outcome([ncls, nicl])
                    if 1 < nicl < ncls and len(acc.samples) < 1:
                        acc.sample({"dag": G.to_matrix(p, ch, und), "I": targets, "mec_size": ncls, "imec_size": nicl})
                    for sig, msg in fails:
                        acc.fail("dagI", {"p": p, "code": code, "lab": lab, "I": targets}, sig, msg)
    else:
        codes = unit["codes"] if "codes" in unit else range(unit["lo"], unit["hi"])
        for code, lab in ((c, l) for c in codes for l in ("pdag",)):
            masks = range(1 << p)
            if p > 5:   # big graphs: no target, every single node carrying an edge, all of those, all nodes
                ch_, und_ = G.decode(p, code)
                active = [i for i in range(p) if G.adjacency(p, ch_, und_)[i]]
                masks = sorted(set([0, (1 << p) - 1, sum(1 << i for i in active)] + [1 << i for i in active]))
            for m in masks:
                targets = G.bits(m)
                res = check_pdag_I(p, code, targets, lab)
                if res is None:
                    break
                fails, uat, nE = res
                acc.states += 1
                acc.transitions += 1
                acc.traces += 1
                acc.extra["pdagI_pairs_p%d" % p] += 1
                acc.extra["pdagI_undirected_at_target" if uat else "pdagI_directed_at_targets"] += 1
                if targets:
                    acc.nontrivial += 1
                acc.outcome(["pdagI", uat, nE > 0])
                for sig, msg in fails:
                    acc.fail("pdagI", {"p": p, "code": code, "I": targets, "lab": lab}, sig, msg)
    return acc.out()


def replay(kind, case):
    p = case["p"]
    if kind == "chain":
        return check_dag_I(p, _g.chain_ch(p), "bin", case["I"])[0]
    if kind == "dagI":
        return check_dag_I(p, G.decode(p, case["code"])[0], case["lab"], case["I"])[0]
    res = check_pdag_I(p, case["code"], case["I"], case.get("lab", "pdag"))
    return res[0] if res else []


def describe(tier, seed):
    return {
        "technique": "exhaustive enumeration of (DAG, target set) pairs on the real code vs brute-force class filtered by the targets' parent sets",
        "rule": "imec (with/without chain shortcut) and dag_to_icpdag for every labelled DAG x every subset I: p<=4 under 3 weight labelings (+ every +-1 sign assignment and tiny weights down to 3e-310 at p<=3; 70-node graphs with edges on node indices >= 64 x selected I; wide 10-node graphs with <=2 edges and targeted colliders x selected I) "
                "(+ 5-node DAGs with <=3 edges and every 128th 5-node DAG quick; all 29,281 x 32 pairs at p=5 thorough); chains to p=7 (quick) / 10 (thorough) x all I; "
                "pdag_to_icpdag for every PDAG x I (p<=4; sparse p=5 thorough): ValueError iff a target has an undirected edge or no extension, "
                "else the union graph of the I-class; non-trivial: class size > 1 and I a proper non-empty subset",
        "exhaustive": True,
        "bounds": {"p_exhaustive": 5 if tier == "thorough" else 4},
        "assumptions": ["beyond p=5 only chain graphs are covered"],
    }
