"""C07 - Markov equivalence classes and consistent extensions are enumerated exactly (E1).

mec / all_dags / is_consistent_extension on every DAG and PDAG of a small scope, against the
brute-force grouping of all DAGs by (skeleton, v-structures).
"""
import numpy as np

import sempler.utils as U

from mc.run import Acc
from mc.refmodel import graphs as G
from mc.checks import _g
from mc.spaces import split_list

ID = "C07"
MANIFEST = {"engine": "E1"}
LABS = ("bin", "neg", "cancel", "generic", "binint", "tiny")


def prepare(tier, seed):
    for p in (1, 2, 3, 4, 5):
        G.dag_groups(p)


def units(tier, seed):
    out = []
    for p in (0, 1, 2, 3):
        out += _g.dag_units("dag", p, 1)
        out += _g.pdag_units("pdag", p, 1)
    out += _g.dag_units("dag", 4, 16)
    out += _g.pdag_units("pdag", 4, 32)
    # chains: shortcut vs general path vs reference
    for p in range(2, 9 if tier == "quick" else 13):
        out.append({"stage": "chain", "p": p})
    if tier == "quick":
        out += [{"stage": "dag", "p": 5, "codes": c, "labs": ["bin"]} for c in split_list(_g.sparse_codes(5, 4, (1, 2)), 16)]
    else:
        out += _g.dag_units("dag", 5, 128)
        out += _g.pdag_units("pdag", 5, 512)
        out += [{"stage": "dag", "p": 6, "codes": c, "labs": ["bin", "cancel"]} for c in split_list(_g.sparse_codes(6, 5, (1, 2)), 128)]
        out += [{"stage": "pdag", "p": 6, "codes": c} for c in split_list(_g.sparse_codes(6, 4, (1, 2, 3)), 64)]
    # wide graphs (10 nodes, indices >= 8): every DAG / PDAG with <= 2 edges, targeted colliders mixing indices below and above 8
    W = _g.WIDE_P
    out += [{"stage": "dag", "p": W, "codes": c, "labs": ["bin"]} for c in split_list(_g.wide_sparse_codes("dag"), 8)]
    out += [{"stage": "pdag", "p": W, "codes": c} for c in split_list(_g.wide_sparse_codes("pdag"), 16)]
    out.append({"stage": "dag", "p": W, "codes": [G.encode(W, ch, [0] * W) for ch in _g.wide_targeted()], "labs": ["bin", "generic"]})
    # 70-node graphs with edges on node indices >= 64
    out.append({"stage": "dag", "p": _g.BIG_P, "codes": _g.big_codes("dag"), "labs": ["bin", "generic"]})
    out.append({"stage": "pdag", "p": _g.BIG_P, "codes": _g.big_codes("pdag")})
    return out


def check_dag(p, code, lab):
    ch, und = G.decode(p, code)
    if any(und) or not G.is_acyclic(p, ch):
        return None
    fails = []
    want = _g.dags_pats(p, _g.mec_ref(p, tuple(ch)))
    A = _g.np_dag(p, ch, lab)
    for kw in ({}, {"check_chain": False}):
        r = _g.call(U.mec, A.copy(), **kw)
        name = "mec" + ("(check_chain=False)" if kw else "")
        if r[0] != "ok":
            fails.append(("mec:raises", "%s(%s) raised %s" % (name, A.tolist(), r[2])))
            continue
        got = _g.pats(r[1])
        if got != want:
            sig = "mec:duplicate" if len(set(got)) < len(got) else ("mec:missing" if set(got) < set(want) else ("mec:extra" if set(got) > set(want) else "mec:wrong"))
            fails.append((sig, "%s(%s) returned %d graph(s), the class has %d; missing %s, extra %s" % (
                name, A.tolist(), len(got), len(want), sorted(set(want) - set(got))[:2], sorted(set(got) - set(want))[:2])))
    return fails, len(want)


def check_pdag(p, code, wide, lab="pdag"):
    ch, und = G.decode(p, code)
    if not G.is_acyclic(p, ch):
        return None
    fails = []
    E = _g.exts(p, ch, und)
    want = _g.dags_pats(p, E)
    P = _g.pdag_any(p, ch, und, lab)
    r = _g.call(U.all_dags, P.copy())
    ncalls = 1
    if r[0] != "ok":
        fails.append(("all_dags:raises", "all_dags(%s) raised %s" % (P.tolist(), r[2])))
    else:
        got = _g.pats(r[1])
        if got != want:
            sig = "all_dags:duplicate" if len(set(got)) < len(got) else ("all_dags:missing" if set(got) < set(want) else ("all_dags:extra" if set(got) > set(want) else "all_dags:wrong"))
            fails.append((sig, "all_dags(%s) returned %d graph(s), brute force finds %d; missing %s, extra %s" % (
                P.tolist(), len(got), len(want), sorted(set(want) - set(got))[:2], sorted(set(got) - set(want))[:2])))
    # membership: is_consistent_extension(G, P)
    Eset = set(E)
    skel = tuple(G.adjacency(p, ch, und))
    if wide == "all":
        cands = [tuple(G.decode(p, c)[0]) for c in G.dag_codes(p)]
    else:
        cands = []
        if p <= 5:
            for (sk, vs), members in G.dag_groups(p).items():
                if sk == skel:
                    cands += members
                elif wide == "near" and sum(G.popcount(a ^ b) for a, b in zip(sk, skel)) == 2:
                    cands += members[:2]
        else:
            cands = list(E)
            # all orientations of the skeleton that are acyclic
            edges = [(i, j) for (i, j) in G.pairs(p) if skel[i] >> j & 1]
            for mask in range(1 << len(edges)):
                g = [0] * p
                for k, (i, j) in enumerate(edges):
                    if mask >> k & 1:
                        g[i] |= 1 << j
                    else:
                        g[j] |= 1 << i
                if G.is_acyclic(p, g):
                    cands.append(tuple(g))
            cands = sorted(set(cands))
    for g in cands:
        Gm = np.array(G.pattern_of_dag(p, g), dtype=int).reshape(p, p)
        r = _g.call(U.is_consistent_extension, Gm, P.copy())
        ncalls += 1
        want_in = g in Eset
        if r[0] != "ok" or bool(r[1]) != want_in:
            fails.append(("is_consistent_extension:%s" % ("false-positive" if not want_in else "false-negative"),
                          "is_consistent_extension(%s, %s) -> %r, expected %s" % (Gm.tolist(), P.tolist(), r[1:], want_in)))
            if len(fails) > 6:
                break
    return fails, len(E), ncalls


def check_chain(p):
    fails = []
    ch = _g.chain_ch(p)
    want = _g.dags_pats(p, G.mec_by_orientation(p, ch))
    A = U.chain_graph(p)
    for kw in ({}, {"check_chain": False}):
        r = _g.call(U.mec, A.copy(), **kw)
        if r[0] != "ok" or _g.pats(r[1]) != want:
            fails.append(("mec:chain", "mec(chain_graph(%d)%s) differs from the %d members found by brute force: %s" % (
                p, ", check_chain=False" if kw else "", len(want), r[2] if r[0] != "ok" else len(_g.pats(r[1])))))
    return fails, len(want)


def run_unit(unit):
    acc = Acc()
    p = unit["p"]
    st = unit["stage"]
    if st == "chain":
        fails, n = check_chain(p)
        acc.states += 1
        acc.transitions += 2
        acc.traces += 1
        acc.nontrivial += 1
        acc.extra["chains"] += 1
        acc.outcome(["chain", n])
        for sig, msg in fails:
            acc.fail("chain", {"p": p}, sig, msg)
    elif st == "dag":
        labs = unit.get("labs") or (LABS if p <= 4 else ("bin", "cancel"))
        for code in unit["codes"]:
            labs_here = labs
            if p <= 4 and not unit.get("labs"):
                labs_here = tuple(labs) + tuple(_g.sign_labs(p, G.decode(p, code)[0], cap=64 if p <= 3 else 8))
            for lab in labs_here:
                res = check_dag(p, code, lab)
                if res is None:
                    continue
                fails, n = res
                acc.states += 1
                acc.transitions += 2
                acc.traces += 1
                acc.extra["dags_p%d" % p] += 1
                if n > 1:
                    acc.nontrivial += 1
                acc.outcome(["mec", n])
                if n > 2 and lab == "cancel" and len(acc.samples) < 1:
                    acc.sample({"dag": _g.np_dag(p, G.decode(p, code)[0], lab).tolist(), "class_size": n})
                for sig, msg in fails:
                    acc.fail("dag", {"p": p, "code": code, "lab": lab}, sig, msg)
    else:
        codes = unit["codes"] if "codes" in unit else range(unit["lo"], unit["hi"])
        wide = "all" if p <= 3 else ("near" if p == 4 else "same")
        for code, lab in ((c, l) for c in codes for l in ("pdag",)):
            res = check_pdag(p, code, wide, lab)
            if res is None:
                continue
            fails, nE, ncalls = res
            acc.states += 1
            acc.transitions += ncalls
            acc.traces += 1
            acc.extra["pdags_p%d" % p] += 1
            if nE != 1:
                acc.nontrivial += 1
            acc.outcome(["ext", nE])
            for sig, msg in fails:
                acc.fail("pdag", {"p": p, "code": code, "wide": wide, "lab": lab}, sig, msg)
    return acc.out()


def replay(kind, case):
    if kind == "chain":
        return check_chain(case["p"])[0]
    if kind == "dag":
        res = check_dag(case["p"], case["code"], case["lab"])
    else:
        res = check_pdag(case["p"], case["code"], case.get("wide", "same"), case.get("lab", "pdag"))
    return res[0] if res else []


def describe(tier, seed):
    return {
        "technique": "exhaustive small-scope enumeration of DAGs/PDAGs on the real code vs brute-force (skeleton, v-structure) grouping",
        "rule": "mec (with and without the chain shortcut) on every labelled DAG with p<=4 under 5 weight labelings and +-1 sign assignments (quick: plus 5-node DAGs "
                "with <=4 edges; thorough: all 29,281 DAGs at p=5, 6-node DAGs with <=5 edges); all_dags on every PDAG with acyclic "
                "directed part (p<=4 quick, p=5 and sparse p=6 thorough); is_consistent_extension(G,P) for every DAG G (p<=3), every G "
                "with P's skeleton or a skeleton one edge away (p=4), every G with P's skeleton (p>=5); chains to p=8 (quick) / 12 (thorough); 7 graphs on 70 nodes whose edges sit on node indices >= 64 (collider, chains, fork, PDAGs with and without extension); wide graphs: every 10-node DAG / PDAG with <=2 edges and 80 targeted colliders mixing node indices below and above 8. "
                "non-trivial: class size / extension count != 1",
        "exhaustive": True,
        "bounds": {"p_exhaustive": 5 if tier == "thorough" else 4, "chains_to": 12 if tier == "thorough" else 8},
        "assumptions": ["beyond p=5 only edge-bounded families and chain graphs are covered"],
    }
