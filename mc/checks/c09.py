"""C09 - consistent-extension search and Meek orientation are sound and complete (E1).

Every PDAG with acyclic directed part on p <= 4 (quick) / p <= 5 + all 6-node PDAGs with <= 4 edges
(thorough).  Oracle: E(P) = brute-force set of consistent extensions (refmodel.graphs).
"""
import numpy as np

import sempler.utils as U

from mc.run import Acc
from mc.refmodel import graphs as G
from mc.checks import _g
from mc.spaces import split_list

ID = "C09"
MANIFEST = {"engine": "E1"}


def prepare(tier, seed):
    for p in (1, 2, 3, 4, 5):
        G.dag_groups(p)


def units(tier, seed):
    out = []
    for p in (0, 1, 2, 3):
        out += _g.pdag_units("pdag", p, 1)
    out += _g.pdag_units("pdag", 4, 16)
    if tier == "quick":
        codes = _g.sparse_codes(5, 4, (1, 2, 3))
        out += [{"stage": "sparse5", "p": 5, "codes": c} for c in split_list(codes, 32)]
        # every 8th code of the complete 5-node space (dense graphs, where Meek rules 3 and 4 fire): a fixed stride, not a sample
        out += [{"stage": "stride5", "p": 5, "codes": list(range(lo, hi, 8))} for lo, hi in _g.chunks(0, 4 ** 10, 64)]
    out += [{"stage": "wide", "p": _g.WIDE_P, "codes": c} for c in split_list(_g.wide_sparse_codes("pdag"), 16)]
    out.append({"stage": "big", "p": _g.BIG_P, "codes": _g.big_codes("pdag")})      # 70 nodes, edges on node indices >= 64
    if tier == "thorough":
        out += _g.pdag_units("pdag", 5, 256)
        codes = _g.sparse_codes(6, 4, (1, 2, 3))
        out += [{"stage": "sparse6", "p": 6, "codes": c} for c in split_list(codes, 64)]
    return out


WLABS = _g.WPDAG_LABS
weighted_pdag = _g.weighted_pdag


def check_pdag(p, code, lab="pdag"):
    ch, und = G.decode(p, code)
    if not G.is_acyclic(p, ch):
        return None
    fails = []
    E = _g.exts(p, ch, und)
    Eset = set(G.pattern_of_dag(p, g) for g in E)
    P = _g.pdag_matrix(p, ch, und) if lab == "pdag" else weighted_pdag(p, ch, und, lab)
    Pl = P.tolist()
    # pdag_to_dag
    r = _g.call(U.pdag_to_dag, P.copy())
    if r[0] == "ok":
        if not E:
            fails.append(("pdag_to_dag:no-error", "pdag_to_dag(%s) returned %s but no consistent extension exists" % (Pl, np.asarray(r[1]).tolist())))
        elif G.pattern(np.asarray(r[1]).tolist()) not in Eset:
            fails.append(("pdag_to_dag:not-an-extension", "pdag_to_dag(%s) returned %s which is not a consistent extension" % (Pl, np.asarray(r[1]).tolist())))
    elif r[1] == "ValueError":
        if E:
            fails.append(("pdag_to_dag:spurious-error", "pdag_to_dag(%s) raised ValueError but %d extension(s) exist, e.g. %s" % (Pl, len(E), G.pattern_of_dag(p, E[0]))))
    else:
        fails.append(("pdag_to_dag:wrong-exception", "pdag_to_dag(%s) raised %s" % (Pl, r[2])))
    # has_consistent_extension
    r = _g.call(U.has_consistent_extension, P.copy())
    if r[0] != "ok" or bool(r[1]) != bool(E):
        fails.append(("has_consistent_extension", "has_consistent_extension(%s) -> %r, brute force finds %d extension(s)" % (Pl, r[1:], len(E))))
    # maximally_orient (0/1 matrices only: its weighted behaviour is documented nowhere)
    if E and lab == "pdag":
        r = _g.call(U.maximally_orient, P.copy())
        if r[0] != "ok":
            fails.append(("maximally_orient:raises", "maximally_orient(%s) raised %s" % (Pl, r[2])))
        else:
            got = G.pattern(np.asarray(r[1]).tolist())
            uch, uund = G.union_graph(p, E)
            want = _g.pdag_pat(p, uch, uund)
            if got != want:
                # classify: unsound (oriented an edge not forced / wrong) or incomplete
                _, gch, gund = G.from_matrix(got)
                unsound = any((gch[i] & ~uch[i]) for i in range(p)) or G.adjacency(p, gch, gund) != G.adjacency(p, uch, uund)
                fails.append(("maximally_orient:%s" % ("unsound" if unsound else "incomplete"),
                              "maximally_orient(%s) = %s, but the union of the %d consistent extensions is %s" % (Pl, got, len(E), want)))
    return fails, len(E), bool(und != [0] * p)


def run_unit(unit):
    acc = Acc()
    p = unit["p"]
    codes = unit["codes"] if "codes" in unit else range(unit["lo"], unit["hi"])
    for code, lab in ((c, l) for c in codes for l in (("pdag",) + (WLABS if p <= 4 and G.nedges(p, c) >= 1 else ()))):
        res = check_pdag(p, code, lab)
        if res is None:
            continue
        fails, nE, has_und = res
        acc.states += 1
        acc.transitions += 3 if nE else 2
        acc.traces += 1
        acc.extra["pdags_p%d" % p] += 1
        acc.extra["with_extension" if nE else "without_extension"] += 1
        if has_und and G.nedges(p, code) >= 2:
            acc.nontrivial += 1
        acc.outcome([p, nE, G.nedges(p, code)])
        if has_und and nE > 1 and len(acc.samples) < 1 and acc.states > 30:
            ch, und = G.decode(p, code)
            acc.sample({"pdag": G.to_matrix(p, ch, und), "n_extensions": nE})
        for sig, msg in fails:
            acc.fail("pdag", {"p": p, "code": code, "lab": lab}, sig, msg)
    return acc.out()


def replay(kind, case):
    res = check_pdag(case["p"], case["code"], case.get("lab", "pdag"))
    return res[0] if res else []


def describe(tier, seed):
    return {
        "technique": "exhaustive enumeration of all PDAGs in a small scope, real code vs brute-force extension sets",
        "rule": "every base-4 edge code on p labelled nodes whose directed part is acyclic (p<=4 plus 5-node PDAGs with <=4 edges and every 8th code of the complete 5-node space quick; all of p=5 and "
                "6-node PDAGs with <=4 edges thorough; every 10-node PDAG with <=2 edges; 7 PDAGs on 70 nodes with edges on node indices >= 64); every PDAG on p<=4 nodes also as a float weight matrix under 3 weightings (outgoing / incoming directed weights that cancel, magnitudes down to 3e-310; asymmetric values on undirected edges) for pdag_to_dag / has_consistent_extension, which pdag_to_cpdag - documented for entries != 0 - runs through; per PDAG: pdag_to_dag, has_consistent_extension and (when an extension exists) "
                "maximally_orient compared with the brute-force set of consistent extensions and its union graph; non-trivial = "
                "has an undirected edge and >= 2 edges",
        "exhaustive": True,
        "bounds": {"p_exhaustive": 5 if tier == "thorough" else 4, "p6_max_edges": 4 if tier == "thorough" else None},
        "assumptions": ["graphs with more than 5 nodes are covered only up to 4 edges (thorough)"],
    }
