"""C08 - the CPDAG is the essential graph of the equivalence class (E1)."""
import numpy as np

import sempler.utils as U

from mc.run import Acc
from mc.refmodel import graphs as G
from mc.checks import _g
from mc.spaces import split_list

ID = "C08"
MANIFEST = {"engine": "E1"}
LABS = ("bin", "neg", "cancel", "generic", "binint", "tiny")


def prepare(tier, seed):
    for p in (1, 2, 3, 4, 5):
        G.dag_groups(p)


def units(tier, seed):
    out = []
    for p in (0, 1, 2, 3):
        out += _g.dag_units("dag", p, 1)
        out += _g.pdag_units("pdag", p, 1)
    out += _g.dag_units("dag", 4, 8)
    out += _g.pdag_units("pdag", 4, 16)
    if tier == "quick":
        out += [{"stage": "dag", "p": 5, "codes": c} for c in split_list(_g.sparse_codes(5, 5, (1, 2)), 16)]
        out += [{"stage": "pdag", "p": 5, "codes": c} for c in split_list(_g.sparse_codes(5, 3, (1, 2, 3)), 8)]
        # every 8th code of the complete 5-node PDAG space (dense graphs included): a fixed stride, not a sample
        out += [{"stage": "pdag", "p": 5, "codes": list(range(lo, hi, 8))} for lo, hi in _g.chunks(0, 4 ** 10, 64)]
    else:
        out += _g.dag_units("dag", 5, 64)
        out += _g.pdag_units("pdag", 5, 256)
        out += [{"stage": "dag", "p": 6, "codes": c} for c in split_list(_g.sparse_codes(6, 5, (1, 2)), 64)]
        out += [{"stage": "pdag", "p": 6, "codes": c} for c in split_list(_g.sparse_codes(6, 4, (1, 2, 3)), 64)]
        for p in range(7, 13):
            out.append({"stage": "chainish", "p": p})
    W = _g.WIDE_P
    out += [{"stage": "dag", "p": W, "codes": c} for c in split_list(_g.wide_sparse_codes("dag"), 8)]
    out += [{"stage": "pdag", "p": W, "codes": c} for c in split_list(_g.wide_sparse_codes("pdag"), 16)]
    out.append({"stage": "dag", "p": W, "codes": [G.encode(W, ch, [0] * W) for ch in _g.wide_targeted()]})
    # 70-node graphs with edges on node indices >= 64
    out.append({"stage": "dag", "p": _g.BIG_P, "codes": _g.big_codes("dag")})
    out.append({"stage": "pdag", "p": _g.BIG_P, "codes": _g.big_codes("pdag")})
    return out


def check_dag(p, code, lab):
    ch, und = G.decode(p, code)
    if any(und) or not G.is_acyclic(p, ch):
        return None
    return check_dag_ch(p, ch, lab)


def check_dag_ch(p, ch, lab):
    fails = []
    cls = _g.mec_ref(p, tuple(ch))
    uch, uund = G.union_graph(p, cls)
    want = _g.pdag_pat(p, uch, uund)
    A = _g.np_dag(p, ch, lab)
    r = _g.call(U.dag_to_cpdag, A.copy())
    if r[0] != "ok":
        fails.append(("dag_to_cpdag:raises", "dag_to_cpdag(%s) raised %s" % (A.tolist(), r[2])))
    else:
        got = G.pattern(np.asarray(r[1]).tolist())
        if got != want:
            _, gch, gund = G.from_matrix(got)
            if G.adjacency(p, gch, gund) != G.adjacency(p, uch, uund):
                sig = "dag_to_cpdag:skeleton"
            elif any(gch[i] & ~uch[i] for i in range(p)):
                sig = "dag_to_cpdag:compels-reversible"
            else:
                sig = "dag_to_cpdag:leaves-compelled-undirected"
            fails.append((sig, "dag_to_cpdag(%s) = %s but the essential graph of its %d-member class is %s" % (A.tolist(), got, len(cls), want)))
    return fails, len(cls)


def check_pdag(p, code, lab="pdag"):
    ch, und = G.decode(p, code)
    if not G.is_acyclic(p, ch):
        return None
    fails = []
    E = _g.exts(p, ch, und)
    P = _g.pdag_any(p, ch, und, lab)
    r = _g.call(U.pdag_to_cpdag, P.copy())
    if not E:
        if r[0] == "ok":
            fails.append(("pdag_to_cpdag:no-error", "pdag_to_cpdag(%s) returned %s but no consistent extension exists" % (P.tolist(), np.asarray(r[1]).tolist())))
        elif r[1] != "ValueError":
            fails.append(("pdag_to_cpdag:wrong-exception", "pdag_to_cpdag(%s) raised %s" % (P.tolist(), r[2])))
    else:
        cls = _g.mec_ref(p, E[0])
        uch, uund = G.union_graph(p, cls)
        want = _g.pdag_pat(p, uch, uund)
        if r[0] != "ok":
            fails.append(("pdag_to_cpdag:spurious-error", "pdag_to_cpdag(%s) raised %s although %d extension(s) exist" % (P.tolist(), r[2], len(E))))
        elif G.pattern(np.asarray(r[1]).tolist()) != want:
            fails.append(("pdag_to_cpdag:wrong", "pdag_to_cpdag(%s) = %s, essential graph of the extensions' class is %s" % (
                P.tolist(), G.pattern(np.asarray(r[1]).tolist()), want)))
    return fails, len(E)


def chainish(p):
    """Larger structured DAGs: chain, reversed chain, chain with one collider at each position."""
    out = []
    base = _g.chain_ch(p)
    out.append(base)
    for c in range(1, p - 1):
        ch = [0] * p
        for i in range(p - 1):
            if i < c:
                ch[i] |= 1 << (i + 1)
            else:
                ch[i + 1] |= 1 << i
        out.append(ch)         # 0 -> 1 -> ... -> c <- c+1 <- ... <- p-1
    return out


def run_unit(unit):
    acc = Acc()
    p, st = unit["p"], unit["stage"]
    if st == "chainish":
        for k, ch in enumerate(chainish(p)):
            fails, n = check_dag_ch(p, ch, "bin")
            acc.states += 1
            acc.transitions += 1
            acc.traces += 1
            acc.nontrivial += 1
            acc.extra["chainish"] += 1
            acc.outcome(["cls", n])
            for sig, msg in fails:
                acc.fail("chainish", {"p": p, "k": k}, sig, msg)
    elif st == "dag":
        labs = LABS if p <= 4 else ("bin", "cancel")
        for code in unit["codes"]:
            labs_here = labs
            if p <= 4:
                labs_here = tuple(labs) + tuple(_g.sign_labs(p, G.decode(p, code)[0], cap=64 if p <= 3 else 16))
            for lab in labs_here:
                res = check_dag(p, code, lab)
                if res is None:
                    continue
                fails, n = res
                acc.states += 1
                acc.transitions += 1
                acc.traces += 1
                acc.extra["dags_p%d" % p] += 1
                if n > 1:
                    acc.nontrivial += 1
                acc.outcome(["cls", n])
                if n > 2 and lab == "generic" and len(acc.samples) < 1:
                    acc.sample({"dag": _g.np_dag(p, G.decode(p, code)[0], lab).tolist(), "class_size": n})
                for sig, msg in fails:
                    acc.fail("dag", {"p": p, "code": code, "lab": lab}, sig, msg)
    else:
        codes = unit["codes"] if "codes" in unit else range(unit["lo"], unit["hi"])
        for code, lab in ((c, l) for c in codes for l in (("pdag",) + (_g.WPDAG_LABS if p <= 4 and G.nedges(p, c) >= 1 else ()))):
            res = check_pdag(p, code, lab)
            if res is None:
                continue
            fails, nE = res
            acc.states += 1
            acc.transitions += 1
            acc.traces += 1
            acc.extra["pdags_p%d" % p] += 1
            acc.extra["pdag_with_extension" if nE else "pdag_without_extension"] += 1
            if G.nedges(p, code) >= 2:
                acc.nontrivial += 1
            acc.outcome(["ext", nE])
            for sig, msg in fails:
                acc.fail("pdag", {"p": p, "code": code, "lab": lab}, sig, msg)
    return acc.out()


def replay(kind, case):
    if kind == "chainish":
        return check_dag_ch(case["p"], chainish(case["p"])[case["k"]], "bin")[0]
    if kind == "dag":
        res = check_dag(case["p"], case["code"], case["lab"])
    else:
        res = check_pdag(case["p"], case["code"], case.get("lab", "pdag"))
    return res[0] if res else []


def describe(tier, seed):
    return {
        "technique": "exhaustive small-scope enumeration on the real code vs union graph of the brute-force equivalence class",
        "rule": "dag_to_cpdag on every labelled DAG p<=4 under 6 weight labelings (incl. weights down to 3e-310) and +-1 sign assignments (+ 7 graphs on 70 nodes with edges on node indices >= 64, + wide 10-node graphs with <=2 edges and targeted colliders, + 5-node DAGs with <=5 edges quick; all p=5, 6-node "
                "DAGs <=5 edges and chain/collider-chain DAGs to p=12 thorough) compared entry-wise with the union graph of the "
                "brute-force class; pdag_to_cpdag on every PDAG with acyclic directed part (0/1, and for p<=4 as float weight matrices under 3 weightings, as documented: entries != 0; p<=4 + sparse p=5 + every 8th code of the complete 5-node space quick; p=5 + sparse p=6 "
                "thorough) incl. the ValueError when no extension exists; non-trivial: class size > 1 / >= 2 edges",
        "exhaustive": True,
        "bounds": {"p_exhaustive": 5 if tier == "thorough" else 4},
        "assumptions": ["beyond p=5 only edge-bounded families and chain-like graphs are covered"],
    }
