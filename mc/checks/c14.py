"""C14 - models are immutable under use and caller data is never modified (E3 + E1).

Part A (E3): explicit-state exploration of call histories on one LGANM (float and int variants),
one NormalDistribution and one ANM, with hostile moves (overwrite returned arrays, overwrite the
arrays passed to the constructors, mutate the dicts passed as interventions).  Invariant in every
state: attribute snapshot == post-construction snapshot and every operation returns what it
returns on a freshly built model.

Part B (E1): registry of the public functions; for every call over a small exhaustive argument
space: arguments byte-identical afterwards, results share no memory with arguments, writing into
results changes no argument.
"""
import copy
import itertools

import numpy as np

import sempler
import sempler.generators as gen
import sempler.noise as noise
import sempler.functions as functions
import sempler.utils as U
import sempler.semi
import sempler.lganm
import sempler.anm
import sempler.normal_distribution

from mc.run import Acc
from mc.hist import bfs as H
from mc.refmodel import graphs as G
from mc.checks import _g

ID = "C14"
MANIFEST = {"engine": "E3+E1"}
_TIER = ["quick"]


def prepare(tier, seed):
    _TIER[0] = tier


# ================================================================================ part A: histories

class Ctx:
    pass


DO = {0: (1.5, 0.25), 2: 3}
SHIFT = {1: (0.5, 1.0), 2: (0.25, 0.5)}
NOISE = {0: (-1.0, 2.0), 1: 0.5}


def make_ctx():
    np.random.seed(2024)
    c = Ctx()
    c.inputs = {
        "W": np.array([[0, 1.5, -1.0], [0, 0, 2.0], [0, 0, 0]]), "means": np.array([0.5, -1.0, 2.0]), "variances": np.array([1.0, 0.5, 2.0]),
        "Wi": np.array([[0, 2, -1], [0, 0, 3], [0, 0, 0]]), "meansi": np.array([1, -2, 3]), "variancesi": np.array([1, 2, 3]),
        "mean": np.array([1.0, 2.0, 3.0]), "cov": np.array([[2.0, 1, 0], [1, 2, 1], [0, 1, 2]]),
        "A": np.array([[0, 1, 1], [0, 0, 1], [0, 0, 0]]),
    }
    c.assignments = [None, lambda x: 2 * x, lambda x: x[:, 0] - 3 * x[:, 1]]
    c.noises = [noise.normal(0, 1), noise.uniform(-1, 1), noise.normal(2, 0.25)]
    i = c.inputs
    c.lg = sempler.LGANM(i["W"], i["means"], i["variances"])
    c.lgi = sempler.LGANM(i["Wi"], i["meansi"], i["variancesi"])
    c.nd = sempler.NormalDistribution(i["mean"], i["cov"])
    c.anm = sempler.ANM(i["A"], c.assignments, c.noises)
    # second instances of every class: state must not be shared between objects either
    c.anm2 = sempler.ANM(np.array([[0, 0, 1], [0, 0, 1], [0, 0, 0]]), [None, None, lambda x: x[:, 0] + 2 * x[:, 1]],
                         [noise.uniform(0, 1), noise.normal(1, 4), noise.laplace(0, 1)])
    c.nd2 = sempler.NormalDistribution(np.array([0.5, -0.5]), np.array([[1.0, 0.25], [0.25, 2.0]]))
    # a model with non-dyadic weights: its population covariance is symmetric only up to rounding
    c.lgr = sempler.LGANM(np.array([[0, 0.1, 0.7], [0, 0, -0.3], [0, 0, 0]]), np.array([0.1, -0.2, 0.3]), np.array([0.3, 1.7, 0.9]))
    c.last = None
    c.passed = []
    return c


def _d(c, template):
    d = dict(template)
    c.passed.append(d)
    return d


def _ops():
    ops = []
    for tag in ("lg", "lgi"):
        m = lambda c, tag=tag: getattr(c, tag)
        ops += [
            (tag + ".sample(population=True)", lambda c, m=m: m(c).sample(population=True)),
            (tag + ".sample(3, random_state=1)", lambda c, m=m: m(c).sample(3, random_state=1)),
            (tag + ".sample(pop, do)", lambda c, m=m: m(c).sample(population=True, do_interventions=_d(c, DO))),
            (tag + ".sample(pop, shift)", lambda c, m=m: m(c).sample(population=True, shift_interventions=_d(c, SHIFT))),
            (tag + ".sample(pop, noise)", lambda c, m=m: m(c).sample(population=True, noise_interventions=_d(c, NOISE))),
            (tag + ".sample(pop, do+shift+noise)", lambda c, m=m: m(c).sample(population=True, do_interventions=_d(c, DO), shift_interventions=_d(c, SHIFT), noise_interventions=_d(c, NOISE))),
            (tag + ".sample(pop, None)", lambda c, m=m: m(c).sample(population=True, do_interventions=None, shift_interventions=None, noise_interventions=None)),
            (tag + ".sample(pop, {})", lambda c, m=m: m(c).sample(population=True, do_interventions=_d(c, {}), shift_interventions=_d(c, {}), noise_interventions=_d(c, {}))),
            (tag + ".sample(2, do, random_state=3)", lambda c, m=m: m(c).sample(2, do_interventions=_d(c, DO), random_state=3)),
        ]
    ops += [
        ("nd.marginal([2,0])", lambda c: c.nd.marginal([2, 0])),
        ("nd.marginal(1)", lambda c: c.nd.marginal(1)),
        ("nd.conditional([0],[1,2],x)", lambda c: c.nd.conditional([0], [1, 2], np.array([0.5, -1.0]))),
        ("nd.regress(0,[1,2])", lambda c: c.nd.regress(0, [1, 2])),
        ("nd.mse(0,[1])", lambda c: c.nd.mse(0, [1])),
        ("nd.sample(3, random_state=2)", lambda c: c.nd.sample(3, random_state=2)),
        ("anm.sample(3, do+noise on one variable, random_state=2)", lambda c: c.anm.sample(3, do_interventions=_d(c, {1: noise.normal(5, 0)}), noise_interventions=_d(c, {1: noise.uniform(7, 8), 0: noise.normal(1, 1)}), random_state=2)),
        ("anm.sample(3, do+shift on one variable, random_state=2)", lambda c: c.anm.sample(3, do_interventions=_d(c, {2: noise.normal(5, 0)}), shift_interventions=_d(c, {2: noise.uniform(7, 8)}), random_state=2)),
        ("anm2.sample(3, random_state=1)", lambda c: c.anm2.sample(3, random_state=1)),
        ("anm2.sample(2, noise, random_state=1)", lambda c: c.anm2.sample(2, noise_interventions=_d(c, {2: noise.normal(0, 1)}), random_state=1)),
        ("nd2.conditional(0,1,x)", lambda c: c.nd2.conditional(0, 1, 0.5)),
        ("nd2.sample(2, random_state=3)", lambda c: c.nd2.sample(2, random_state=3)),
        ("lgr.sample(pop) sampled from, attributes compared", lambda c: _pop_then_sample(c)),
        ("anm.sample(3, random_state=1)", lambda c: c.anm.sample(3, random_state=1)),
        ("anm.sample(3, do, random_state=1)", lambda c: c.anm.sample(3, do_interventions=_d(c, {1: noise.normal(5, 0)}), random_state=1)),
        ("anm.sample(2, shift+noise, random_state=4)", lambda c: c.anm.sample(2, shift_interventions=_d(c, {0: noise.normal(1, 0)}), noise_interventions=_d(c, {2: noise.uniform(3, 4)}), random_state=4)),
    ]
    return ops


def _pop_then_sample(c):
    """A population distribution obtained from a model is itself immutable under sampling and queries."""
    d = c.lgr.sample(population=True, shift_interventions=_d(c, {1: (0.1, 0.2)}))
    before = (d.mean.copy(), d.covariance.copy())
    x = d.sample(2, random_state=1)
    d.regress(2, [0, 1])
    d.marginal([1, 0])
    same = np.array_equal(d.mean, before[0]) and np.array_equal(d.covariance, before[1])
    return (before[0], before[1], x, "attributes unchanged" if same else "ATTRIBUTES CHANGED BY sample/regress/marginal")


OPS = _ops()


def overwrite(v, depth=0):
    if depth > 4:
        return
    if isinstance(v, np.ndarray):
        if v.flags.writeable and v.size:
            v[...] = 777
    elif isinstance(v, sempler.NormalDistribution):
        overwrite(v.mean, depth + 1)
        overwrite(v.covariance, depth + 1)
    elif isinstance(v, (list, tuple)):
        for x in v:
            overwrite(x, depth + 1)


def hostile_out(c):
    overwrite(c.last)


def hostile_in(c):
    for k, a in c.inputs.items():
        a[...] = 9 if k != "A" else 1
    c.assignments[:] = [None, None, None]
    c.noises[:] = [noise.zero()] * 3


def hostile_dicts(c):
    for d in c.passed:
        d[1] = (99, 99)
        d[0] = 5
        d.pop(2, None)


HOSTILE = [("overwrite the arrays last returned", hostile_out), ("overwrite the constructor inputs", hostile_in), ("mutate the intervention dicts passed so far", hostile_dicts)]
ALPHA = [("op", i) for i in range(len(OPS))] + [("hostile", i) for i in range(len(HOSTILE))]


def name_of(a):
    return OPS[a[1]][0] if a[0] == "op" else HOSTILE[a[1]][0]


def apply(c, a):
    if a[0] == "op":
        c.last = OPS[a[1]][1](c)
    else:
        HOSTILE[a[1]][1](c)


def rdigest(r):
    if isinstance(r, sempler.NormalDistribution):
        return H.digest_value(["ND", r.mean, r.covariance, r.p])
    return H.digest_value(r)


def snapshot(c):
    return H.digest_value([vars(c.lg), vars(c.lgi), vars(c.nd), dict(vars(c.anm)), dict(vars(c.anm2)), vars(c.nd2), vars(c.lgr)])


_REF = {}


def reference():
    if not _REF:
        for i, (name, f) in enumerate(OPS):
            c = make_ctx()
            _REF[i] = rdigest(f(c))
        _REF["snap"] = snapshot(make_ctx())
        _REF["defaults"] = H.defaults_digest([sempler.LGANM.sample, sempler.ANM.sample, sempler.NormalDistribution.sample])
    return _REF


def canon(c):
    return (snapshot(c), H.defaults_digest([sempler.LGANM.sample, sempler.ANM.sample, sempler.NormalDistribution.sample]),
            H.module_globals_digest([sempler.lganm, sempler.anm, sempler.normal_distribution, noise, functions]),
            H.digest_value([c.inputs, len(c.passed)]), rdigest(c.last) if c.last is not None else "")


def run_history(hist):
    reference()
    c = make_ctx()
    for a in hist:
        apply(c, a)
    return c


def evaluate(c, upto=None):
    ref = reference()
    fails = []
    if snapshot(c) != ref["snap"]:
        fails.append((-1, "model-attributes-changed", "the public attributes of a model differ from their post-construction values"))
    if H.defaults_digest([sempler.LGANM.sample, sempler.ANM.sample, sempler.NormalDistribution.sample]) != ref["defaults"]:
        fails.append((-1, "mutable-default-modified", "a mutable default argument of a sample method was modified"))
    for i, (name, f) in enumerate(OPS):
        if upto is not None and i > upto:
            break
        try:
            r = f(c)
            c.last = r
            d = rdigest(r)
        except Exception as e:
            fails.append((i, "raises:" + name, "%s raised %r" % (name, e)))
            continue
        if d != ref[i]:
            fails.append((i, "result-depends-on-history:" + name.split("(")[0], "%s differs from its result on a freshly built model" % name))
    return fails


def hist_units(tier):
    depth = 2 if tier == "quick" else 4
    if depth == 4:      # split the depth-4 histories by their first two operations
        out = [{"stage": "hist", "first": i, "second": j, "depth": depth} for i in range(len(ALPHA)) for j in range(len(ALPHA))]
        out += [{"stage": "hist", "first": i, "depth": 1} for i in range(len(ALPHA))]
    else:
        out = [{"stage": "hist", "first": i, "depth": depth} for i in range(len(ALPHA))]
    out.append({"stage": "hist", "first": None, "depth": 0})
    out.append({"stage": "bfs", "depth": 3 if tier == "quick" else 8})
    return out


def run_hist_unit(unit, acc):
    if unit["stage"] == "bfs":
        g = H.bfs(len(ALPHA), lambda h: run_history([ALPHA[i] for i in h]), canon, unit["depth"], max_states=3000 if _TIER[0] == "quick" else 30000)
        try:
            while True:
                h, c, new = next(g)
                acc.transitions += 1
                if new:
                    acc.states += 1
                    acc.traces += 1
                    for k, sig, msg in evaluate(c):
                        acc.fail("hist", {"history": list(h), "upto": k}, sig, msg + " in the state reached by %s" % [name_of(ALPHA[i]) for i in h])
        except StopIteration as e:
            acc.extra["bfs_states"], acc.extra["bfs_transitions"], acc.extra["bfs_depth"] = e.value
        acc.nontrivial += max(0, acc.states - 1)
        return
    if unit["first"] is None:
        hists = [()]
    elif "second" in unit:
        hists = [(unit["first"], unit["second"]) + rest for d in range(unit["depth"] - 1) for rest in itertools.product(range(len(ALPHA)), repeat=d)]
    else:
        hists = [(unit["first"],) + rest for d in range(unit["depth"]) for rest in itertools.product(range(len(ALPHA)), repeat=d)]
    for h in hists:
        c = run_history([ALPHA[i] for i in h])
        fails = evaluate(c)
        acc.states += 1
        acc.traces += 1
        acc.transitions += len(h) + len(OPS)
        acc.extra["histories_depth_%d" % len(h)] += 1
        if h:
            acc.nontrivial += 1
        acc.outcome(canon(c))
        if len(acc.samples) < 1 and len(h) == unit["depth"] and any(ALPHA[i][0] == "hostile" for i in h):
            acc.sample({"history": [name_of(ALPHA[i]) for i in h], "then": "attribute snapshot and all %d operations compared with a freshly built model" % len(OPS)})
        for k, sig, msg in fails:
            acc.fail("hist", {"history": list(h), "upto": k}, sig, msg + " after history %s" % [name_of(ALPHA[i]) for i in h])


# ================================================================================ part B: registry

def arrays_in(v, depth=0, out=None):
    if out is None:
        out = []
    if depth > 5:
        return out
    if isinstance(v, np.ndarray):
        out.append(v)
    elif isinstance(v, sempler.NormalDistribution):
        out += [v.mean, v.covariance]
    elif isinstance(v, dict):
        for x in v.values():
            arrays_in(x, depth + 1, out)
    elif isinstance(v, (list, tuple, set, frozenset)):
        for x in v:
            arrays_in(x, depth + 1, out)
    elif hasattr(v, "__dict__") and type(v).__module__.startswith("sempler"):
        for x in vars(v).values():
            arrays_in(x, depth + 1, out)
    return out


# unseeded draws: a second call legitimately differs; DRFNet(): the stand-in backend numbers its fits, so two
# constructions differ in that bookkeeping (a property of the stub, not of the library)
NONDETERMINISTIC = {"noise", "DRFNet()"}


def check_call(name, f, args, kwargs=None, model=None, allow_alias_args=()):
    """Calls f(*args); checks (1) args (and the model) byte-identical afterwards, (2) no array reachable from the
    result shares memory with an argument or model attribute, (3) writing into the result changes nothing."""
    kwargs = kwargs or {}
    before = H.digest_value([args, kwargs])
    mbefore = H.digest_value(vars(model)) if model is not None else None
    r = _g.call(f, *args, **kwargs)
    fails = []
    if H.digest_value([args, kwargs]) != before:
        fails.append(("argument-modified:" + name, "%s modified one of its arguments %s" % (name, _short(args))))
    if model is not None and H.digest_value(vars(model)) != mbefore:
        fails.append(("model-modified:" + name, "%s modified the model it was called on" % name))
    if r[0] == "ok":
        d1 = rdigest(r[1])
        res_arrays = arrays_in(r[1])
        owners = [a for k, a in enumerate(arrays_in([args, kwargs])) if k not in allow_alias_args]
        if model is not None:
            owners += arrays_in(vars(model))
        if any(np.shares_memory(x, a) for x in res_arrays for a in owners if x.size and a.size):
            fails.append(("result-aliases-input:" + name, "%s returned an array that shares memory with an argument / model attribute (args %s)" % (name, _short(args))))
        else:
            for x in res_arrays:
                if x.flags.writeable and x.size:
                    try:
                        x[...] = 777 if x.dtype != bool else True
                    except Exception:
                        pass
            if H.digest_value([args, kwargs]) != before or (model is not None and H.digest_value(vars(model)) != mbefore):
                fails.append(("write-through:" + name, "writing into the result of %s changed an argument / the model" % name))
            elif name not in NONDETERMINISTIC:
                # the same call again, after the first result was overwritten: results must not live in shared / cached storage
                r2 = _g.call(f, *args, **kwargs)
                if r2[0] != "ok" or rdigest(r2[1]) != d1:
                    fails.append(("result-depends-on-earlier-result:" + name, "%s called again with the same arguments after its first result was overwritten returns something else (args %s)" % (name, _short(args))))
    return fails


def _short(args):
    s = repr([a.tolist() if isinstance(a, np.ndarray) else a for a in args])
    return s[:300]


def graph_functions():
    """(name, function, kind)"""
    one = ["sampling_matrix", "nonzero", "transitive_closure", "is_dag", "is_complete", "is_chain_graph", "mec", "topological_ordering", "vstructures",
           "moral_graph", "degrees", "only_directed", "only_undirected", "undirected_edges", "directed_edges", "edge_weights", "skeleton",
           "has_consistent_extension", "to_factorization", "pdag_to_cpdag", "dag_to_cpdag", "pdag_to_dag", "order_edges", "maximally_orient", "all_dags",
           "argmin", "argmax"]
    node = ["ancestors", "descendants", "neighbors", "adj", "pa", "ch", "an", "desc", "chain_component"]
    pair = ["na", "semi_directed_paths", "rule_1", "rule_2", "rule_3", "rule_4"]
    sets = ["is_clique", "induced_subgraph"]
    withI = ["imec", "dag_to_icpdag", "pdag_to_icpdag"]
    return one, node, pair, sets, withI


def graph_inputs(p):
    out = []
    for code, ch, und in G.pdag_code_range(p, 0, 4 ** G.npairs(p)):
        out.append(("pdag", code, _g.pdag_matrix(p, ch, und)))
        out.append(("pdagf", code, _g.pdag_matrix(p, ch, und).astype(float)))
        out.append(("pdagb", code, _g.pdag_matrix(p, ch, und).astype(bool)))       # a conversion to bool is then not a copy
        if not any(und):
            out.append(("wdag", code, _g.np_dag(p, ch, "generic")))
    return out


def run_registry_graph(unit, acc):
    p = unit["p"]
    one, node, pair, sets, withI = graph_functions()
    for kind, code, A in graph_inputs(p)[unit["k"]::unit["n"]]:
        def do(name, f, args, **kw):
            fails = check_call(name, f, args, **kw)
            acc.states += 1
            acc.traces += 1
            acc.transitions += 1
            acc.extra["registry_calls"] += 1
            acc.nontrivial += 1 if A.any() else 0
            for sig, msg in fails:
                acc.fail("registry", {"fn": name, "p": p, "kind": kind, "code": code, "extra": kw.get("tag")}, sig, msg)
        for name in one:
            do(name, getattr(U, name), [A.copy()])
        for name in node:
            for i in range(p):
                do(name, getattr(U, name), [i, A.copy()])
        for name in pair:
            for i in range(p):
                for j in range(p):
                    if name.startswith("rule") and i == j:
                        continue
                    do(name, getattr(U, name), [i, j, A.copy()])
        for m in range(1 << p):
            S = set(G.bits(m))
            for name in sets:
                do(name, getattr(U, name), [set(S), A.copy()])
            for name in withI:
                do(name, getattr(U, name), [A.copy(), set(S)])
            rest = [i for i in range(p) if i not in S]
            if len(rest) >= 2:
                do("separates", U.separates, [set(S), {rest[0]}, {rest[-1]}, A.copy()])
        do("is_consistent_extension", U.is_consistent_extension, [U.only_directed(A).copy(), A.copy()])
        do("is_supergraph", U.is_supergraph, [A.copy(), U.only_directed(A)])
        do("has_subgraph", U.has_subgraph, [[A.copy()], [U.only_directed(A)]])
        do("has_supergraph", U.has_supergraph, [[A.copy()], [A.copy()]])
        do("member", U.member, [[A.copy(), A.T.copy()], A.copy()])
        do("allclose", U.allclose, [A.astype(float), A.astype(float) + 1e-9])
        do("matrix_block", U.matrix_block, [A.copy(), list(range(p))[::-1], [0]])
        if kind != "pdagf":
            for k in (0, 1):
                do("remove_edges", U.remove_edges, [A.copy(), k])
                do("add_edges", U.add_edges, [A.copy(), k])
        if kind == "wdag":
            lab = U.order_edges(A)
            do("label_edges", U.label_edges, [lab])
            do("chain_graph_IMEC", U.chain_graph_IMEC, [A.copy(), {0}])


def run_registry_misc(acc):
    def do(name, f, args, **kw):
        fails = check_call(name, f, args, **kw)
        acc.states += 1
        acc.traces += 1
        acc.transitions += 1
        acc.extra["registry_calls"] += 1
        acc.nontrivial += 1
        for sig, msg in fails:
            acc.fail("registry-misc", {"fn": name, "tag": kw.get("tag")}, sig, msg)
    data = [np.arange(24.0).reshape(12, 2), np.arange(10.0).reshape(5, 2)]
    for ratios in ([1.0], [0.5, 0.5], [0.2, 0.3, 0.5]):
        for rs in (0, 1):
            do("split_data", U.split_data, [[d.copy() for d in data], list(ratios)], kwargs={"random_state": rs})
    do("sort", U.sort, [[3, 1, 2], [2, 3, 1, 0]])
    do("sort", U.sort, [np.array([3, 1, 2]), np.array([2, 3, 1, 0])])
    do("subsets", U.subsets, [{0, 1, 2}])
    do("combinations", U.combinations, [3, 1])
    do("sorted_tuple", U.sorted_tuple, [{2, 0, 1}])
    do("all_but", U.all_but, [np.array([1]), 3])
    do("delete", U.delete, [np.arange(6.0).reshape(3, 2), np.array([True, False, True]), 0])
    do("cartesian", U.cartesian, [[np.array([1, 2]), np.array([3, 4, 5])]])
    do("same_normal", U.same_normal, [np.arange(12.0).reshape(6, 2), np.arange(12.0).reshape(6, 2)[::-1].copy()])
    do("chain_graph", U.chain_graph, [4])
    do("chain_graph_MEC", U.chain_graph_MEC, [3])
    for fn in (gen.dag_avg_deg, gen.dag_full):
        do(fn.__name__, fn, [4, 2] if fn is gen.dag_avg_deg else [4], kwargs={"random_state": 1, "return_ordering": True})
    do("intervention_targets", gen.intervention_targets, [5, 2, (1, 2)], kwargs={"random_state": 1})
    for f in (noise.normal(1, 2), noise.uniform(0, 2), noise.laplace(0, 1)):
        do("noise", f, [3])
    do("noise.zero", noise.zero(), [3])
    do("noise.zero", noise.zero(), [3])
    do("functions.null", functions.null, [np.ones((3, 2))])
    # class methods on models built from caller arrays; constructor inputs count as arguments
    mean, cov = np.array([1.0, 2.0, 3.0]), np.array([[2.0, 1, 0], [1, 2, 1], [0, 1, 2]])
    nd = sempler.NormalDistribution(mean, cov)
    for name, args in (("marginal", [np.array([2, 0])]), ("marginal", [[0, 1, 2]]), ("conditional", [np.array([0]), np.array([1, 2]), np.array([0.5, 1.0])]),
                       ("conditional", [[0, 1, 2], [], []]), ("regress", [0, np.array([1, 2])]), ("mse", [0, np.array([1])]), ("equal", [nd])):
        do("NormalDistribution." + name, getattr(nd, name), args, model=nd)
    do("NormalDistribution.sample", nd.sample, [3], kwargs={"random_state": 5}, model=nd)
    do("NormalDistribution()", sempler.NormalDistribution, [mean, cov])
    # univariate distributions given as 0-d / 1-d / 2-d arrays (np.atleast_* returns views of these)
    for m1, c1 in ((np.array(3.0), np.array(2.0)), (np.array(3.0), np.array([2.0])), (np.array([3.0]), np.array([[2.0]])),
                   (np.array([3.0]), np.array([2.0])), (np.array(3), np.array([[2]]))):
        do("NormalDistribution()", sempler.NormalDistribution, [m1, c1])
        d1 = sempler.NormalDistribution(m1, c1)
        do("NormalDistribution.marginal", d1.marginal, [0], model=d1)
        do("NormalDistribution.sample", d1.sample, [2], kwargs={"random_state": 1}, model=d1)
    W, means, variances = np.array([[0, 1.5, -1.0], [0, 0, 2.0], [0, 0, 0]]), np.array([0.5, -1.0, 2.0]), np.array([1.0, 0.5, 2.0])
    do("LGANM()", sempler.LGANM, [W, means, variances])
    lg = sempler.LGANM(W, means, variances)
    for kw in ({}, {"population": True}, {"do_interventions": dict(DO)}, {"population": True, "shift_interventions": dict(SHIFT), "noise_interventions": dict(NOISE)}):
        do("LGANM.sample", lg.sample, [3], kwargs=dict(kw, random_state=1), model=lg)
    A = np.array([[0, 1, 1], [0, 0, 1], [0, 0, 0]])
    assignments = [None, lambda x: 2 * x, lambda x: x[:, 0] - x[:, 1]]
    noises = [noise.normal(0, 1)] * 3
    do("ANM()", sempler.ANM, [A, assignments, noises])
    anm = sempler.ANM(A, assignments, noises)
    for kw in ({}, {"do_interventions": {1: noise.normal(1, 1)}}, {"shift_interventions": {0: noise.uniform()}, "noise_interventions": {2: noise.laplace()}}):
        do("ANM.sample", anm.sample, [3], kwargs=dict(kw, random_state=1), model=anm)
    graph = np.array([[0, 1, 1], [0, 0, 1], [0, 0, 0]])
    d2 = [np.arange(18.0).reshape(6, 3) ** 1.5 % 7, np.arange(15.0).reshape(5, 3) ** 1.3 % 5]
    do("DRFNet()", sempler.semi.DRFNet, [graph, d2])
    net = sempler.semi.DRFNet(graph, d2)
    for args in ([], [2], [[2, 3]]):
        do("DRFNet.sample", net.sample, args, kwargs={"random_state": 1}, model=net)
    do("_bootstrap", sempler.semi._bootstrap, [np.arange(5.0), 3], kwargs={"random_state": 1})


def units(tier, seed):
    out = hist_units(tier)
    out.append({"stage": "registry-misc"})
    for p in (1, 2):
        out.append({"stage": "registry", "p": p, "k": 0, "n": 1})
    n = 12
    out += [{"stage": "registry", "p": 3, "k": k, "n": n} for k in range(n)]
    return out


def run_unit(unit):
    acc = Acc(keep_failures=2)
    if unit["stage"] in ("hist", "bfs"):
        run_hist_unit(unit, acc)
    elif unit["stage"] == "registry":
        run_registry_graph(unit, acc)
    else:
        run_registry_misc(acc)
        acc.sample({"registry": "public functions of utils / generators / noise / functions / the three classes / semi", "check": "arguments byte-identical after the call, no shared memory with results, no write-through"})
    return acc.out()


def replay(kind, case):
    if kind == "hist":
        c = run_history([ALPHA[i] for i in case["history"]])
        fails = evaluate(c, upto=None if case["upto"] < 0 else case["upto"])
        return [(s, m) for k, s, m in fails if k == case["upto"]] or [(s, m) for k, s, m in fails]
    acc = Acc(keep_failures=50)
    if kind == "registry":
        p = case["p"]
        inputs = graph_inputs(p)
        idx = next(i for i, (k, c, A) in enumerate(inputs) if k == case["kind"] and c == case["code"])
        run_registry_graph({"p": p, "k": idx, "n": len(inputs)}, acc)
    else:
        run_registry_misc(acc)
    return [(f["sig"], f["msg"]) for f in acc.failures if f["case"].get("fn") == case["fn"]]


def describe(tier, seed):
    return {
        "technique": "explicit-state exploration of call histories on live model objects (all histories to a depth without deduplication + BFS on a canonical state digest, "
                     "differential oracle against freshly built models) and exhaustive small-scope enumeration of a registry of public functions with byte snapshots",
        "rule": "histories over %d operations (two instances of every class; LGANM float, int and non-dyadic variants: population / finite sampling with do, shift, noise, overlapping, None, {}; NormalDistribution "
                "marginal, conditional, regress, mse, sample; ANM sampling plain and intervened) and 3 hostile moves (overwrite returned arrays, overwrite constructor "
                "inputs, mutate passed dicts): all histories of length <= %d, BFS with deduplication to depth %d; invariant: attribute snapshot and method defaults unchanged, "
                "every operation equals its result on a fresh model. Registry: %d graph utilities on every PDAG p<=3 (int, float and bool matrices) and weighted DAG, for every node / "
                "ordered pair / node subset argument, plus split_data, generators, noise, class constructors and methods, semi (stand-in backend): arguments byte-identical "
                "afterwards, np.shares_memory(result, argument/model) false, writing 777 into results changes nothing. non-trivial: non-empty history / non-empty graph" % (
                    len(ALPHA), 2 if tier == "quick" else 4, 3 if tier == "quick" else 8, sum(len(x) for x in graph_functions()) + 12),
        "exhaustive": True,
        "bounds": {"history_depth_no_dedup": 2 if tier == "quick" else 4, "bfs_depth": 3 if tier == "quick" else 8, "registry_p": 3},
        "assumptions": ["the documented out= buffer of cartesian is excepted", "one representative model per class (p = 3)"],
    }
