"""Helpers shared by the graph checks (C07-C10, C15, C16)."""
import itertools

import numpy as np

from mc.refmodel import graphs as G
from mc.spaces import dag_matrix, pdag_matrix, chunks, split_list


def call(f, *a, **k):
    """('ok', value) | ('exc', class name, repr)."""
    try:
        return ("ok", f(*a, **k))
    except Exception as e:                      # classified by the caller, by class only
        if type(e).__name__ == "TapeError":     # harness error, never a verdict about the library
            raise
        return ("exc", type(e).__name__, repr(e)[:300])


def pats(arr3):
    """3-d array / list of matrices -> sorted list of non-zero patterns."""
    arr3 = np.asarray(arr3)
    if arr3.ndim == 3:                          # k graphs (k members of shape (0, 0) when p = 0)
        return sorted(G.pattern(M) for M in arr3.tolist())
    if arr3.size == 0:
        return []
    return sorted(G.pattern(M) for M in arr3.tolist())


def dags_pats(p, dags):
    return sorted(G.pattern_of_dag(p, g) for g in dags)


def pdag_pat(p, ch, und):
    return tuple(tuple(r) for r in G.to_matrix(p, ch, und))


def exts(p, ch, und):
    if p <= 5:
        return G.extensions(p, ch, und)
    return G.extensions_by_orientation(p, ch, und)


def mec_ref(p, ch):
    if p <= 5:
        return G.mec_of(p, ch)
    return G.mec_by_orientation(p, ch)


def pdag_units(stage, p, n):
    total = 4 ** G.npairs(p)
    return [{"stage": stage, "p": p, "lo": lo, "hi": hi} for lo, hi in chunks(0, total, n)]


def dag_units(stage, p, n, **kw):
    codes = G.dag_codes(p)
    return [dict({"stage": stage, "p": p, "codes": c}, **kw) for c in split_list(codes, n)]


def sparse_codes(p, max_edges, digits):
    """All codes on p nodes with at most max_edges non-zero digits drawn from `digits`."""
    m = G.npairs(p)
    out = []
    for e in range(max_edges + 1):
        for pos in itertools.combinations(range(m), e):
            for ds in itertools.product(digits, repeat=e):
                code = 0
                for k, d in zip(pos, ds):
                    code |= d << (2 * k)
                out.append(code)
    return out


def chain_ch(p):
    return [(1 << (i + 1)) if i + 1 < p else 0 for i in range(p)]


def np_dag(p, ch, lab):
    if lab == "int":
        return dag_matrix(p, ch, "int", int)
    if lab == "binint":
        return dag_matrix(p, ch, "bin", int)
    return dag_matrix(p, ch, lab, float)


def sign_labs(p, ch, cap=64):
    """All +-1 weight assignments of the DAG's edges (labelings 'signs:<mask>'), at most `cap`."""
    e = sum(G.popcount(x) for x in ch)
    n = 1 << e
    if n <= cap:
        return ["signs:%d" % m for m in range(n)]
    step = n // cap
    return ["signs:%d" % m for m in range(0, n, step)][:cap]


# ------------------------------------------------------------------------------------------------
# "wide" graphs: p = 10 with few edges.  Python iterates a set of small ints in increasing order only while
# all members are < 8 ({1, 8} iterates as 8, 1), so code that relies on set iteration order is only exposed
# by node indices >= 8.  Two families: every DAG / PDAG on 10 nodes with <= 2 edges, and targeted colliders
# whose parent sets mix indices below and above 8.

WIDE_P = 10


def wide_sparse_codes(kind="dag", max_edges=2):
    return sparse_codes(WIDE_P, max_edges, (1, 2) if kind == "dag" else (1, 2, 3))


def wide_targeted():
    """list of ch (children masks) on 10 nodes: colliders c <- S with S from {1,2,3,8,9}, with and without c -> 7."""
    import itertools
    out = []
    pool = [1, 2, 3, 8, 9]
    for c in (4, 0):
        for k in (2, 3):
            for S in itertools.combinations(pool, k):
                for tail in (False, True):
                    ch = [0] * WIDE_P
                    for s_ in S:
                        ch[s_] |= 1 << c
                    if tail:
                        ch[c] |= 1 << 7
                    out.append(ch)
    return out


BIG_P = 70


def big_graphs():
    """[(name, ch, und)] on 70 nodes whose edges sit on node indices >= 64, where a fixed-width integer bitmask, a uint8 counter
    or a 64-bit shift in an implementation would overflow; few edges, so that the brute-force oracles stay cheap."""
    p = BIG_P

    def mk(directed, undirected=()):
        ch, und = [0] * p, [0] * p
        for a, b in directed:
            ch[a] |= 1 << b
        for a, b in undirected:
            und[a] |= 1 << b
            und[b] |= 1 << a
        return ch, und
    out = []
    out.append(("collider-high",) + mk([(3, 66), (65, 66), (68, 66), (66, 69), (2, 64)]))
    out.append(("chain-high",) + mk([(63, 64), (64, 65), (65, 66), (66, 67)]))
    out.append(("chain-high-reversed",) + mk([(67, 66), (66, 65), (65, 64), (64, 63)]))
    out.append(("fork-high",) + mk([(66, 1), (66, 65), (66, 69), (65, 69)]))
    out.append(("pdag-high",) + mk([(3, 66), (65, 66)], [(66, 69), (64, 67), (67, 1)]))
    out.append(("undirected-path-high",) + mk([], [(63, 64), (64, 65), (65, 66)]))
    out.append(("pdag-no-extension-high",) + mk([], [(64, 65), (65, 66), (66, 67), (67, 64)]))
    return out


def big_codes(kind="pdag"):
    return [G.encode(BIG_P, ch, und) for _, ch, und in big_graphs() if kind == "pdag" or not any(und)]


WPDAG_LABS = ("rowcancel", "colcancel", "tinyw")


def weighted_pdag(p, ch, und, lab):
    """The same PDAG as a float weight matrix (an edge is an entry != 0; undirected = both entries non-zero).
    rowcancel: the weights of the directed edges leaving a node sum to 0 (when it has >= 2); colcancel: those entering a node;
    tinyw: magnitudes down to a subnormal. Undirected edges carry -1.5 / 0.5 (asymmetric values, symmetric pattern)."""
    M = np.zeros((p, p))
    for i in range(p):
        for j in G.bits(und[i]):
            M[i, j] = -1.5 if i < j else 0.5
    e = 0
    for i in range(p):
        outs = G.bits(ch[i]) if lab == "rowcancel" else [j for j in range(p) if ch[j] >> i & 1] if lab == "colcancel" else G.bits(ch[i])
        k = len(outs)
        for t, j in enumerate(outs):
            if lab == "tinyw":
                w = (1e-13, -1e-15, 1e-200, -3e-310)[e % 4]
            elif k == 1:
                w = -1.0
            elif k % 2 == 0:
                w = 1.0 if t % 2 == 0 else -1.0
            else:
                w = (1.0, 1.0, -2.0)[t] if t < 3 else (1.0 if t % 2 == 1 else -1.0)
            if lab == "colcancel":
                M[j, i] = w
            else:
                M[i, j] = w
            e += 1
    return M


def pdag_any(p, ch, und, lab="pdag"):
    return pdag_matrix(p, ch, und) if lab == "pdag" else weighted_pdag(p, ch, und, lab)


def path_graphs():
    """[(name, p, ch, und)]: long paths (undirected, directed, mixed; natural and scrambled labels) on 6, 7 and 11 nodes - shapes on which a
    closure computed with too few squarings or a search cut off at a fixed depth goes wrong."""
    out = []
    for p in (6, 7, 11):
        for lname, lab in (("natural", list(range(p))), ("scrambled", [(3 * i + 1) % p for i in range(p)] if p % 3 else [(5 * i + 2) % p for i in range(p)])):
            if sorted(lab) != list(range(p)):
                continue
            for kind in ("undirected", "directed", "mixed"):
                ch, und = [0] * p, [0] * p
                for i in range(p - 1):
                    a, b = lab[i], lab[i + 1]
                    if kind == "undirected" or (kind == "mixed" and i >= 2):
                        und[a] |= 1 << b
                        und[b] |= 1 << a
                    else:
                        ch[a] |= 1 << b
                out.append(("%s path p=%d %s labels" % (kind, p, lname), p, ch, und))
    return out
