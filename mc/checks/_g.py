"""Helpers shared by the graph checks (C07-C10, C15, C16)."""
import itertools

import numpy as np

from mc.refmodel import graphs as G
from mc.spaces import dag_matrix, pdag_matrix, chunks, split_list


def call(f, *a, **k):
    """('ok', value) | ('exc', class name, repr)."""
    try:
        return ("ok", f(*a, **k))
    except Exception as e:                      # classified by the caller, by class only
        if type(e).__name__ == "TapeError":     # harness error, never a verdict about the library
            raise
        return ("exc", type(e).__name__, repr(e)[:300])


def pats(arr3):
    """3-d array / list of matrices -> sorted list of non-zero patterns."""
    arr3 = np.asarray(arr3)
    if arr3.size == 0:
        return []
    return sorted(G.pattern(M) for M in arr3.tolist())


def dags_pats(p, dags):
    return sorted(G.pattern_of_dag(p, g) for g in dags)


def pdag_pat(p, ch, und):
    return tuple(tuple(r) for r in G.to_matrix(p, ch, und))


def exts(p, ch, und):
    if p <= 5:
        return G.extensions(p, ch, und)
    return G.extensions_by_orientation(p, ch, und)


def mec_ref(p, ch):
    if p <= 5:
        return G.mec_of(p, ch)
    return G.mec_by_orientation(p, ch)


def pdag_units(stage, p, n):
    total = 4 ** G.npairs(p)
    return [{"stage": stage, "p": p, "lo": lo, "hi": hi} for lo, hi in chunks(0, total, n)]


def dag_units(stage, p, n, **kw):
    codes = G.dag_codes(p)
    return [dict({"stage": stage, "p": p, "codes": c}, **kw) for c in split_list(codes, n)]


def sparse_codes(p, max_edges, digits):
    """All codes on p nodes with at most max_edges non-zero digits drawn from `digits`."""
    m = G.npairs(p)
    out = []
    for e in range(max_edges + 1):
        for pos in itertools.combinations(range(m), e):
            for ds in itertools.product(digits, repeat=e):
                code = 0
                for k, d in zip(pos, ds):
                    code |= d << (2 * k)
                out.append(code)
    return out


def chain_ch(p):
    return [(1 << (i + 1)) if i + 1 < p else 0 for i in range(p)]


def np_dag(p, ch, lab):
    if lab == "int":
        return dag_matrix(p, ch, "int", int)
    if lab == "binint":
        return dag_matrix(p, ch, "bin", int)
    return dag_matrix(p, ch, lab, float)
