"""C13 - seeded calls are reproducible regardless of history (E3, real numpy RNG).

Explicit-state exploration over call histories on live objects: every history of perturbing and
seeded operations up to a depth (without deduplication), plus a breadth-first search deduplicated on
the canonical state (numpy's global Mersenne state, model attributes, method defaults, module
globals).  Invariant in every state: every seeded operation returns bit-identical output to its
initial-state reference; unseeded samplers called twice in a row differ.
"""
import json
import os
import subprocess
import sys

import numpy as np

import sempler
import sempler.generators as gen
import sempler.noise as noise
import sempler.utils as U
import sempler.lganm
import sempler.anm
import sempler.normal_distribution

from mc.run import Acc
from mc.hist import bfs as H

ID = "C13"
MANIFEST = {"engine": "E3"}
_TIER = ["quick"]
_SEED = [0]
INIT_SEED = 424242
_FIXED_STATE = None


def prepare(tier, seed):
    _TIER[0] = tier
    _SEED[0] = seed


class Ctx:
    pass


def make_ctx():
    global _FIXED_STATE
    np.random.seed(777)
    np.random.normal(size=5)
    if _FIXED_STATE is None:
        _FIXED_STATE = np.random.get_state()
    np.random.seed(INIT_SEED)
    c = Ctx()
    c.W = np.array([[0, 1.5, 0], [0, 0, -2.0], [0, 0, 0]])
    c.lganm = sempler.LGANM(c.W, np.array([0.5, -1.0, 2.0]), np.array([1.0, 0.5, 2.0]))
    c.lganm_seeded = sempler.LGANM(c.W, (0, 1), (0.5, 2), random_state=0)     # a model that was itself built with a seed
    c.nd = sempler.NormalDistribution(np.array([1.0, 2.0, 3.0]), np.array([[2.0, 1, 0], [1, 2, 1], [0, 1, 2]]))
    c.nd_diag = sempler.NormalDistribution(np.array([1.0, -2.0]), np.array([[2.0, 0.0], [0.0, 0.5]]))
    c.nd_uni = sempler.NormalDistribution(np.array([1.5]), np.array([[4.0]]))
    c.lganm_edgeless = sempler.LGANM(np.zeros((3, 3)), np.array([0.5, -1.0, 2.0]), np.array([1.0, 0.5, 2.0]))
    c.A = np.array([[0, 1, 1], [0, 0, 1], [0, 0, 0]])
    c.anm = sempler.ANM(c.A, [None, lambda x: 2 * x, lambda x: x[:, 0] - x[:, 1] ** 2],
                        [noise.normal(0, 1), noise.uniform(-1, 1), noise.laplace(0, 2)])
    c.data = [np.arange(24.0).reshape(12, 2), np.arange(10.0).reshape(5, 2)]
    c.dag = np.array([[0, 1, 0, 0], [0, 0, 1, 0], [0, 0, 0, 0], [0, 0, 0, 0]])
    return c


# ---- operations: name -> (function(ctx, seed), seeded?)
def _ops():
    ops = {}
    ops["lganm_ctor"] = lambda c, s: (lambda m: (m.means, m.variances))(sempler.LGANM(c.W, (0, 1), (0.5, 2), random_state=s))
    ops["lganm_sample"] = lambda c, s: c.lganm.sample(4, random_state=s)
    ops["lganm_sample_iv"] = lambda c, s: c.lganm.sample(3, do_interventions={0: (1, 2)}, shift_interventions={2: (0.5, 1)}, random_state=s)
    ops["lganm_seeded_ctor_sample"] = lambda c, s: c.lganm_seeded.sample(3, noise_interventions={1: (0.5, 2)}, random_state=s)
    ops["nd_sample"] = lambda c, s: c.nd.sample(4, random_state=s)
    ops["nd_diag_sample"] = lambda c, s: c.nd_diag.sample(3, random_state=s)
    ops["nd_univariate_sample"] = lambda c, s: c.nd_uni.sample(3, random_state=s)
    ops["lganm_edgeless_sample"] = lambda c, s: c.lganm_edgeless.sample(3, random_state=s)
    ops["lganm_all_parents_do_sample"] = lambda c, s: c.lganm.sample(3, do_interventions={1: (0, 1), 2: (1, 2)}, random_state=s)
    ops["dag_avg_deg_sparse"] = lambda c, s: [gen.dag_avg_deg(3, 0.25, 0.5, 2, random_state=s + 100 * t) for t in range(4)]
    ops["anm_sample"] = lambda c, s: c.anm.sample(4, random_state=s)
    ops["anm_sample_iv"] = lambda c, s: c.anm.sample(3, do_interventions={1: noise.uniform(1, 2)}, noise_interventions={0: noise.laplace()}, random_state=s)
    ops["dag_avg_deg"] = lambda c, s: gen.dag_avg_deg(5, 2, 0.5, 2, random_state=s)
    ops["dag_avg_deg_ord"] = lambda c, s: gen.dag_avg_deg(5, 2.5, -1, 1, return_ordering=True, random_state=s)
    ops["dag_full"] = lambda c, s: gen.dag_full(4, 0.5, 1, return_ordering=True, random_state=s)
    ops["targets_repl"] = lambda c, s: gen.intervention_targets(6, 3, (1, 3), random_state=s)
    ops["targets_norepl"] = lambda c, s: gen.intervention_targets(8, 3, (1, 2), replace=False, random_state=s)
    ops["split_data"] = lambda c, s: U.split_data(c.data, [0.5, 0.25, 0.25], random_state=s)
    ops["add_edges"] = lambda c, s: U.add_edges(c.dag, 3, random_state=s)
    ops["remove_edges"] = lambda c, s: U.remove_edges(c.dag, 1, random_state=s)
    # the documented default seed: calls that do not pass random_state at all must be just as repeatable (observed once, as "seed" 42)
    ops["split_data(default seed)"] = lambda c, s: U.split_data(c.data, [0.5, 0.25, 0.25]) if s == 42 else None
    ops["add_edges(default seed)"] = lambda c, s: U.add_edges(c.dag, 3) if s == 42 else None
    ops["remove_edges(default seed)"] = lambda c, s: U.remove_edges(c.dag, 1) if s == 42 else None
    return ops


SEEDED = _ops()


def _perturb():
    p = {}
    p["np.seed(99)"] = lambda c: np.random.seed(99)
    p["np.seed(0)"] = lambda c: np.random.seed(0)
    p["np.normal(3)"] = lambda c: np.random.normal(size=3)
    p["default_rng(5).uniform"] = lambda c: np.random.default_rng(5).uniform()
    p["lganm.sample unseeded"] = lambda c: c.lganm.sample(2)
    p["lganm(seeded ctor).sample unseeded"] = lambda c: c.lganm_seeded.sample(2)
    p["anm.sample unseeded"] = lambda c: c.anm.sample(2)
    p["nd.sample unseeded"] = lambda c: c.nd.sample(1)
    p["noise draw"] = lambda c: noise.uniform()(3)
    p["dag_avg_deg unseeded"] = lambda c: gen.dag_avg_deg(3, 1)
    p["lganm ctor unseeded"] = lambda c: sempler.LGANM(c.W, (0, 1), (0, 1))
    p["np.set_state(fixed)"] = lambda c: np.random.set_state(_FIXED_STATE)
    return p


PERTURB = _perturb()
UNSEEDED_PAIRS = {
    "lganm.sample": lambda c: c.lganm.sample(12),
    "lganm(built with random_state=0).sample": lambda c: c.lganm_seeded.sample(12),
    "lganm.sample(do)": lambda c: c.lganm.sample(12, do_interventions={0: (1, 2)}),
    "anm.sample": lambda c: c.anm.sample(12),
    "nd.sample": lambda c: c.nd.sample(12),
}


def observed_ops(seed):
    seeds = sorted({0, 1, 42, 12345, int(seed) % (2 ** 32)})
    return [(name, s) for name in SEEDED for s in seeds]


def history_alphabet():
    """Operations used to build histories: every seeded op with seeds {0, 12345} and every perturbation."""
    alpha = [("S", name, s) for name in SEEDED for s in (0, 12345) if "default seed" not in name]
    alpha += [("S", name, 42) for name in SEEDED if "default seed" in name]
    alpha += [("P", name, None) for name in PERTURB]
    return alpha


def apply_op(ctx, op):
    kind, name, s = op
    if kind == "S":
        return SEEDED[name](ctx, s)
    return PERTURB[name](ctx)


def result_digest(r):
    return H.digest_value(r)


_REF = {}


def reference(seed):
    if seed not in _REF:
        tab = {}
        for name, s in observed_ops(seed):
            ctx = make_ctx()
            tab[(name, s)] = result_digest(SEEDED[name](ctx, s))
        _REF[seed] = tab
    return _REF[seed]


def run_history(hist_ops):
    reference(_SEED[0])          # the reference table must exist before the history starts (it reseeds numpy)
    ctx = make_ctx()
    for op in hist_ops:
        apply_op(ctx, op)
    return ctx


def evaluate_state(ctx, seed, upto=None):
    """Invariant in the state held by ctx (the observed operations are run one after the other, the
    global RNG state being restored in between).  Returns list of (index, sig, msg); `upto` limits
    the observed prefix (replay)."""
    assert seed in _REF, "reference table must be computed before the history is run"
    ref = _REF[seed]
    fails = []
    st = np.random.get_state()
    obs = observed_ops(seed)
    for k, (name, s) in enumerate(obs):
        if upto is not None and k > upto:
            break
        try:
            d = result_digest(SEEDED[name](ctx, s))
        except Exception as e:
            fails.append((k, "raises:" + name, "%s(random_state=%d) raised %r" % (name, s, e)))
            np.random.set_state(st)
            continue
        if d != ref[(name, s)]:
            fails.append((k, "not-reproducible:%s%s" % (name, ":seed0" if s == 0 else ""),
                          "%s(random_state=%d) differs from its result in the initial state" % (name, s)))
        np.random.set_state(st)
    if upto is None or upto >= len(obs):
        for name, f in UNSEEDED_PAIRS.items():
            a, b = f(ctx), f(ctx)
            if np.array_equal(a, b):
                fails.append((len(obs), "degenerate:" + name, "two consecutive unseeded %s calls returned identical samples" % name))
            np.random.set_state(st)
    return fails


def canon(ctx):
    return (H.rng_state_digest(),
            H.digest_value([vars(ctx.lganm), vars(ctx.lganm_seeded), vars(ctx.nd), {k: v for k, v in vars(ctx.anm).items() if k not in ("assignments", "noise_distributions")}]),
            H.defaults_digest([sempler.LGANM.sample, sempler.ANM.sample, sempler.NormalDistribution.sample, gen.dag_avg_deg, gen.dag_full,
                               gen.intervention_targets, U.split_data, U.add_edges, U.remove_edges]),
            H.module_globals_digest([sempler.lganm, sempler.anm, sempler.normal_distribution, gen, noise, U]),
            H.digest_value([ctx.W, ctx.A, ctx.data, ctx.dag]))


def _process_check(acc, seed, hashseeds):
    """the reference table recomputed in fresh interpreters with other hash seeds"""
    mine = {"%s/%d" % k: v for k, v in reference(seed).items()}
    for hs in hashseeds:
        env = dict(os.environ, PYTHONHASHSEED=hs, VERIF_SEED=str(seed))
        r = subprocess.run([sys.executable, "-m", "mc.checks.c13"], env=env, capture_output=True, text=True, timeout=300)
        acc.states += 1
        acc.traces += 1
        acc.transitions += len(mine)
        acc.extra["fresh_interpreters"] += 1
        try:
            other = json.loads(r.stdout.strip().splitlines()[-1])
        except Exception:
            raise RuntimeError("fresh interpreter did not produce a table: %s %s" % (r.stdout[-500:], r.stderr[-500:]))
        diff = sorted(k for k in mine if other.get(k) != mine[k])
        if diff:
            acc.fail("process", {"hashseed": hs, "seed": seed}, "not-reproducible-across-processes:" + diff[0].split("/")[0],
                     "seeded results differ between interpreter processes (PYTHONHASHSEED=%s): %s" % (hs, diff[:4]))


def units(tier, seed):
    alpha = history_alphabet()
    depth = 2 if tier == "quick" else 3
    out = [{"stage": "hist", "first": i, "depth": depth} for i in range(len(alpha))]
    out.append({"stage": "hist", "first": None, "depth": 0})
    out.append({"stage": "bfs", "depth": 3 if tier == "quick" else 8})
    out.append({"stage": "processes"})
    return out


def describe_hist(hist_ops):
    return [("%s(random_state=%s)" % (n, s)) if k == "S" else n for k, n, s in hist_ops]


def run_unit(unit):
    acc = Acc(keep_failures=2)
    seed = _SEED[0]
    alpha = history_alphabet()
    if unit["stage"] == "hist":
        import itertools
        if unit["first"] is None:
            hists = [()]
        else:
            hists = [(unit["first"],) + rest for d in range(unit["depth"]) for rest in itertools.product(range(len(alpha)), repeat=d)]
        for h in hists:
            ops = [alpha[i] for i in h]
            ctx = run_history(ops)
            fails = evaluate_state(ctx, seed)
            acc.states += 1
            acc.traces += 1
            acc.transitions += len(h) + len(observed_ops(seed)) + 6
            acc.extra["histories_depth_%d" % len(h)] += 1
            if len(h) >= 1:
                acc.nontrivial += 1
            acc.outcome(H.rng_state_digest())
            if len(acc.samples) < 1 and len(h) == unit["depth"] and len(h) >= 2:
                acc.sample({"history": describe_hist(ops), "then": "all %d seeded operations compared bit-for-bit with their initial-state results" % len(observed_ops(seed))})
            for k, sig, msg in fails:
                acc.fail("hist", {"history": [list(o) for o in ops], "observed_upto": k, "seed": seed}, sig, msg + " after history %s" % describe_hist(ops))
    elif unit["stage"] == "bfs":
        def build(h):
            return run_history([alpha[i] for i in h])
        g = H.bfs(len(alpha), build, canon, unit["depth"], max_states=4000 if _TIER[0] == "quick" else 40000)
        try:
            while True:
                h, ctx, new = next(g)
                acc.transitions += 1
                if new:
                    acc.states += 1
                    acc.traces += 1
                    ops = [alpha[i] for i in h]
                    for k, sig, msg in evaluate_state(ctx, seed):
                        acc.fail("hist", {"history": [list(o) for o in ops], "observed_upto": k, "seed": seed}, sig, msg + " in the state reached by %s" % describe_hist(ops))
        except StopIteration as e:
            nstates, ntrans, depth = e.value
            acc.extra["bfs_states"] = nstates
            acc.extra["bfs_transitions"] = ntrans
            acc.extra["bfs_depth"] = depth
        acc.nontrivial += max(0, acc.states - 1)
    else:
        _process_check(acc, seed, ("1", "2"))
    return acc.out()


def replay(kind, case):
    if kind == "process":
        acc = Acc()
        _process_check(acc, case["seed"], (case["hashseed"],))
        return [(f["sig"], f["msg"]) for f in acc.failures]
    ops = [tuple(o) for o in case["history"]]
    _SEED[0] = case["seed"]
    ctx = run_history(ops)
    fails = evaluate_state(ctx, case["seed"], upto=case["observed_upto"])
    return [(sig, msg) for k, sig, msg in fails if k == case["observed_upto"]] or [(sig, msg) for k, sig, msg in fails]


def describe(tier, seed):
    alpha = history_alphabet()
    return {
        "technique": "explicit-state exploration of call histories on the real objects with the real numpy RNG: all histories to a depth without deduplication + BFS "
                     "deduplicated on a canonical state digest; differential oracle (bit-identity with the initial-state result)",
        "rule": "history alphabet of %d operations: 20 seeded API configurations (LGANM construction with ranges, LGANM / NormalDistribution / ANM sampling plain and intervened with "
                "normal+uniform+laplace noise, dag_avg_deg with/without ordering, dag_full, intervention_targets with/without replacement, split_data, add_edges, "
                "remove_edges) x seeds {0, 12345} plus 12 perturbations (reseeding numpy with 99 and 0, global draws, private generators, unseeded library sampling and "
                "construction, set_state); every history of length <= %d (no deduplication) and BFS with state deduplication to depth %d; in every state all 20 seeded "
                "APIs x seeds {0, 1, 42, 12345, VERIF_SEED} must be bit-identical to the initial-state reference and 5 unseeded samplers called twice must differ; the "
                "reference table is recomputed in two fresh interpreters with other PYTHONHASHSEED values. non-trivial: non-empty history" % (
                    len(alpha), 2 if tier == "quick" else 3, 3 if tier == "quick" else 8),
        "exhaustive": True,
        "bounds": {"history_depth_no_dedup": 2 if tier == "quick" else 3, "bfs_depth": 3 if tier == "quick" else 8, "alphabet": len(alpha)},
        "assumptions": ["argument values are fixed per API (one representative configuration each); the quantifier over histories is what is explored exhaustively",
                        "an unseeded 12-row sample coinciding with the next one has probability < 1e-8"],
    }


if __name__ == "__main__":
    seed = int(os.environ.get("VERIF_SEED", "0") or 0)
    print(json.dumps({"%s/%d" % k: v for k, v in reference(seed).items()}))
