"""C15 - graph relations agree with their definitions on every PDAG (E1)."""
import itertools

import numpy as np

import sempler.utils as U

from mc.run import Acc
from mc.refmodel import graphs as G
from mc.checks import _g
from mc.spaces import split_list

ID = "C15"
MANIFEST = {"engine": "E1"}


def units(tier, seed):
    out = []
    for p in (0, 1, 2, 3):
        out += _g.pdag_units("pdag", p, 1)
        out += _g.dag_units("wdag", p, 1)
    out += _g.pdag_units("pdag", 4, 32)
    out += _g.dag_units("wdag", 4, 8)
    if tier == "thorough":
        out += [dict(u, light=True) for u in _g.pdag_units("pdag", 5, 512)]      # every 5-node PDAG (765,664); separates with singleton A, B
    # wide graphs (p = 10, node indices >= 8): every PDAG with <= 2 edges and targeted colliders
    out += [{"stage": "pdag", "p": _g.WIDE_P, "codes": c, "light": True} for c in split_list(_g.wide_sparse_codes("pdag"), 32)]
    out.append({"stage": "wide-targeted"})
    out.append({"stage": "big"})         # 70 nodes, edges on node indices >= 64
    return out


def asset(x):
    return set(int(v) for v in x)


def check_graph(p, ch, und, A, sep_mode):
    """A: numpy matrix with the pattern (ch, und). Returns (fails, ncalls)."""
    fails = []
    n = 0
    Al = A.tolist()
    pa = G.parents(p, ch)
    adjm = G.adjacency(p, ch, und)
    strict = G.reach(p, ch)
    rpa = G.reach(p, pa)

    def cmp_set(name, got, want, args):
        nonlocal n
        n += 1
        if got[0] != "ok":
            fails.append((name + ":raises", "%s%s on %s raised %s" % (name, args, Al, got[2])))
        elif asset(got[1]) != set(want):
            fails.append((name, "%s%s on %s = %s, definition gives %s" % (name, args, Al, sorted(asset(got[1])), sorted(want))))

    # wide graphs (p > 5): pair-indexed functions only over the nodes that carry an edge (plus node 0)
    pair_nodes = list(range(p)) if p <= 5 else sorted(set([0] + [i for i in range(p) if adjm[i]]))
    for i in range(p):
        cmp_set("pa", _g.call(U.pa, i, A), G.bits(pa[i]), (i,))
        cmp_set("ch", _g.call(U.ch, i, A), G.bits(ch[i]), (i,))
        cmp_set("neighbors", _g.call(U.neighbors, i, A), G.bits(und[i]), (i,))
        cmp_set("adj", _g.call(U.adj, i, A), G.bits(adjm[i]), (i,))
        cmp_set("ancestors", _g.call(U.ancestors, i, A), G.bits(rpa[i]), (i,))
        cmp_set("an", _g.call(U.an, i, A), G.bits(rpa[i]), (i,))
        cmp_set("descendants", _g.call(U.descendants, i, A), G.bits(strict[i] | 1 << i), (i,))
        cmp_set("desc", _g.call(U.desc, i, A), G.bits(strict[i] | 1 << i), (i,))
        cmp_set("chain_component", _g.call(U.chain_component, i, A), G.chain_component(p, und, i), (i,))
        for j in (pair_nodes if i in pair_nodes else ()):
            cmp_set("na", _g.call(U.na, i, j, A), G.bits(und[i] & adjm[j]), (i, j))
    # transitive closure
    r = _g.call(U.transitive_closure, A.copy())
    n += 1
    if any(und):
        if r[0] == "ok" or r[1] != "ValueError":
            fails.append(("transitive_closure:no-error", "transitive_closure(%s) -> %r for a graph that is not a DAG" % (Al, r[1:])))
    else:
        want = tuple(tuple(1 if strict[i] >> j & 1 else 0 for j in range(p)) for i in range(p))
        if r[0] != "ok":
            fails.append(("transitive_closure:raises", "transitive_closure(%s) raised %s" % (Al, r[2])))
        elif G.pattern(np.asarray(r[1]).tolist()) != want:
            fails.append(("transitive_closure", "transitive_closure(%s) = %s, reachability is %s" % (Al, np.asarray(r[1]).tolist(), want)))
    # semi-directed paths
    allpaths = {}
    for a in pair_nodes:
        for b in pair_nodes:
            want = sorted(G.semi_directed_paths(p, ch, und, a, b))
            allpaths[(a, b)] = want
            r = _g.call(U.semi_directed_paths, a, b, A)
            n += 1
            if r[0] != "ok":
                fails.append(("semi_directed_paths:raises", "semi_directed_paths(%d,%d,%s) raised %s" % (a, b, Al, r[2])))
                continue
            got = sorted(tuple(int(v) for v in path) for path in r[1])
            if got != want:
                sig = "semi_directed_paths:duplicate" if len(set(got)) < len(got) else "semi_directed_paths"
                fails.append((sig, "semi_directed_paths(%d,%d,%s) = %s, definition gives %s" % (a, b, Al, got, want)))
    # separates
    def sep_ref(S, As, Bs):
        Sset = set(S)
        return all(any(v in Sset for v in path) for a in As for b in Bs for path in allpaths[(a, b)])

    if sep_mode == "overlap":          # every assignment of each node to a subset of {S, A, B}
        assigns = itertools.product(range(8), repeat=p)
    elif sep_mode == "disjoint":
        assigns = itertools.product((0, 1, 2, 4), repeat=p)
    elif sep_mode == "single" and p > 5:   # wide graphs: A, B singletons among the nodes that have an edge (+ node 0), S empty or a singleton
        act = sorted(set([0] + [i for i in range(p) if adjm[i]]))[:5]
        assigns = []
        for a_ in act:
            for b_ in act:
                if a_ == b_:
                    continue
                for s_ in [None] + [x for x in act if x not in (a_, b_)]:
                    t = [0] * p
                    t[a_], t[b_] = 2, 4
                    if s_ is not None:
                        t[s_] = 1
                    assigns.append(tuple(t))
    elif sep_mode == "single":         # A and B singletons, every S
        assigns = (a for a in itertools.product((0, 1, 2, 4), repeat=p) if a.count(2) == 1 and a.count(4) == 1)
    else:
        assigns = ()
    for a in assigns:
        S = {i for i in range(p) if a[i] & 1}
        As = {i for i in range(p) if a[i] & 2}
        Bs = {i for i in range(p) if a[i] & 4}
        overlap = any(x not in (0, 1, 2, 4) for x in a)
        r = _g.call(U.separates, set(S), set(As), set(Bs), A)
        n += 1
        if overlap:
            if r[0] == "ok" or r[1] != "ValueError":
                fails.append(("separates:no-error-on-overlap", "separates(S=%s,A=%s,B=%s,%s) -> %r; the sets overlap" % (sorted(S), sorted(As), sorted(Bs), Al, r[1:])))
        else:
            want = sep_ref(S, As, Bs)
            if r[0] != "ok":
                fails.append(("separates:raises", "separates(S=%s,A=%s,B=%s,%s) raised %s" % (sorted(S), sorted(As), sorted(Bs), Al, r[2])))
            elif bool(r[1]) != want:
                fails.append(("separates:%s" % ("false-positive" if not want else "false-negative"),
                              "separates(S=%s,A=%s,B=%s,%s) = %r, definition gives %s" % (sorted(S), sorted(As), sorted(Bs), Al, r[1], want)))
        if len(fails) > 12:
            break
    return fails, n


def build(p, code, lab):
    ch, und = G.decode(p, code)
    if not G.is_acyclic(p, ch):
        return None
    if lab == "pdag":
        A = _g.pdag_matrix(p, ch, und)
    elif lab == "pdagF":
        A = np.asfortranarray(_g.pdag_matrix(p, ch, und))
    elif lab in _g.WPDAG_LABS:
        if not any(und):
            return None
        A = _g.weighted_pdag(p, ch, und, lab)
    else:
        if any(und):
            return None
        A = _g.np_dag(p, ch, lab)
    return ch, und, A


def sep_mode_for(p, tier, light):
    if light:
        return "single"
    if p <= 3:
        return "overlap"
    return "disjoint" if tier == "thorough" else "single"


_TIER = ["quick"]


def prepare(tier, seed):
    _TIER[0] = tier


def run_unit(unit):
    acc = Acc()
    if unit["stage"] == "wide-targeted":
        p = _g.WIDE_P
        for k, ch in enumerate(_g.wide_targeted()):
            for lab in ("binint", "generic", "signs:5"):
                A = _g.np_dag(p, ch, lab)
                fails, n = check_graph(p, ch, [0] * p, A, "single")
                acc.states += 1
                acc.transitions += n
                acc.traces += 1
                acc.nontrivial += 1
                acc.extra["wide_targeted"] += 1
                acc.outcome(["wide", k, lab])
                for sig, msg in fails:
                    acc.fail("wide", {"k": k, "lab": lab}, sig, msg)
        return acc.out()
    if unit["stage"] == "big":
        p = _g.BIG_P
        fam = [(n_, _g.BIG_P, c_, u_) for n_, c_, u_ in _g.big_graphs()] + _g.path_graphs()
        for k, (name, p, ch, und) in enumerate(fam):
            for lab in ("pdag",) + (() if any(und) else ("generic", "tiny")):
                A = _g.pdag_matrix(p, ch, und) if lab == "pdag" else _g.np_dag(p, ch, lab)
                fails, n = check_graph(p, ch, und, A, "single")
                acc.states += 1
                acc.transitions += n
                acc.traces += 1
                acc.nontrivial += 1
                acc.extra["big_p70"] += 1
                acc.outcome(["big", k, lab])
                for sig, msg in fails:
                    acc.fail("big", {"k": k, "lab": lab}, sig, msg)
        return acc.out()
    p = unit["p"]
    labs = (("pdag", "pdagF") if unit["p"] <= 3 else ("pdag",)) if unit["stage"] == "pdag" else ("neg", "cancel", "generic", "int", "tiny")
    codes = unit["codes"] if "codes" in unit else range(unit["lo"], unit["hi"])
    mode = sep_mode_for(p, _TIER[0], unit.get("light"))
    for code in codes:
        labs_here = labs
        if unit["stage"] == "wdag" and p <= 4:
            ch0, und0 = G.decode(p, code)
            if not any(und0):
                labs_here = labs + tuple(_g.sign_labs(p, ch0))
        for lab in labs_here:
            b = build(p, code, lab)
            if b is None:
                continue
            ch, und, A = b
            mode_here = "none" if lab.startswith("signs:") and p >= 4 else mode      # separates under sign labelings only for p <= 3
            fails, n = check_graph(p, ch, und, A, mode_here)
            acc.states += 1
            acc.transitions += n
            acc.traces += 1
            acc.extra["%s_p%d" % (unit["stage"], p)] += 1
            if G.nedges(p, code) >= 2:
                acc.nontrivial += 1
            acc.outcome([sum(G.popcount(x) for x in G.reach(p, ch)), sum(G.popcount(x) for x in und)])
            if any(und) and any(ch) and len(acc.samples) < 1 and acc.states > 10:
                acc.sample({"graph": A.tolist(), "calls_compared": n, "separates_mode": mode})
            for sig, msg in fails:
                acc.fail("graph", {"p": p, "code": code, "lab": lab, "sep": mode_here}, sig, msg)
    return acc.out()


def replay(kind, case):
    if kind == "big":
        name, P_, ch, und = ([(n_, _g.BIG_P, c_, u_) for n_, c_, u_ in _g.big_graphs()] + _g.path_graphs())[case["k"]]
        A = _g.pdag_matrix(P_, ch, und) if case["lab"] == "pdag" else _g.np_dag(P_, ch, case["lab"])
        return check_graph(P_, ch, und, A, "single")[0]
    if kind == "wide":
        ch = _g.wide_targeted()[case["k"]]
        return check_graph(_g.WIDE_P, ch, [0] * _g.WIDE_P, _g.np_dag(_g.WIDE_P, ch, case["lab"]), "single")[0]
    b = build(case["p"], case["code"], case["lab"])
    if b is None:
        return []
    return check_graph(case["p"], b[0], b[1], b[2], case["sep"])[0]


def describe(tier, seed):
    return {
        "technique": "exhaustive small-scope enumeration of PDAGs, nodes, node pairs and node-set triples on the real code vs bitset/recursive oracles",
        "rule": "every PDAG with acyclic directed part p<=4 (binary) and every DAG p<=4 under neg/cancel/generic/int weights and every +-1 sign assignment (thorough: + 5-node PDAGs "
                "with <=5 edges); 7 graphs on 70 nodes whose edges sit on node indices >= 64 (collider, chains, fork, PDAGs with and without extension) and 18 long paths (undirected / directed / mixed, natural and scrambled labels, 6, 7 and 11 nodes); wide graphs: every 10-node PDAG with <=2 edges and 80 targeted colliders mixing node indices below and above 8; per graph: pa, ch, neighbors, adj, ancestors, an, descendants, desc, chain_component for every node, na and "
                "semi_directed_paths for every ordered pair, transitive_closure (ValueError iff undirected edges), separates for every assignment "
                "of the nodes to subsets of {S,A,B} (p<=3, overlapping => ValueError), every disjoint (S,A,B) with singleton A,B at p=4 (quick) / "
                "every disjoint triple (thorough); non-trivial: >= 2 edges",
        "exhaustive": True,
        "bounds": {"p_exhaustive": 5 if tier == "thorough" else 4, "separates_full_p": 4 if tier == "thorough" else 3},
        "assumptions": ["graphs with a cyclic directed part are outside the quantifier and never generated"],
    }
