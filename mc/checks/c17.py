"""C17 - split_data partitions every environment's observations (E1 + E2)."""
import itertools
from fractions import Fraction

import math

import numpy as np

import sempler.utils as U

from mc.run import Acc
from mc.env import tape
from mc.spaces import split_list

ID = "C17"
MANIFEST = {"engine": "E1+E2"}
SIZES = (0, 1, 2, 3, 5, 7, 9, 10, 12)
SIZES_T = (0, 1, 2, 3, 4, 5, 6, 7, 8, 9, 10, 11, 12, 13, 15, 17, 20, 25)
_TIER = ["quick"]
_SEED = [0]


def prepare(tier, seed):
    _TIER[0] = tier
    _SEED[0] = seed


def ratio_vectors():
    """(exact ratios as [num, den] pairs) - all sum to 1 in exact arithmetic."""
    out = []
    for k in (1, 2, 3, 4):
        for cuts in itertools.combinations(range(1, 10), k - 1):
            parts = [b - a for a, b in zip((0,) + cuts, cuts + (10,))]
            out.append([[x, 10] for x in parts])
    out += [[[1, 3]] * 3, [[1, 6]] * 6, [[1, 6], [2, 6], [3, 6]], [[1, 7]] * 7, [[2, 7], [5, 7]], [[3, 7], [4, 7]], [[1, 1]],
            [[0, 10], [10, 10]], [[5, 10], [0, 10], [5, 10]], [[1, 9]] * 9, [[1, 3], [2, 3]], [[1, 12], [11, 12]], [[49, 100], [51, 100]]]
    return out


def floats(rv):
    return [n / d for n, d in rv]


def make_data(sizes):
    return [np.array([[100.0 * e + r, 100.0 * e + r + 0.5] for r in range(n)]).reshape(n, 2) for e, n in enumerate(sizes)]


def size_pairs():
    S = SIZES_T if _TIER[0] == "thorough" else SIZES
    out = [[n] for n in S]
    out += [[a, b] for a in S for b in S if a != b and (a + b) % 3 != 1]
    if _TIER[0] == "thorough":
        out += [[a, b, c] for a in (1, 3, 7) for b in (2, 5) for c in (0, 9)]
    return out


def units(tier, seed):
    out = []
    rvs = ratio_vectors()
    for part in split_list(rvs, 24):
        out.append({"stage": "grid", "rvs": part})
    out.append({"stage": "errors"})
    nmax = 4 if tier == "quick" else 5
    shuf = [[n] for n in range(0, nmax + 1)] + [[a, b] for a in range(1, nmax) for b in range(1, nmax)] + [[7], [3, 6]]
    if tier == "thorough":
        shuf += [[6], [8], [4, 5], [2, 3, 4], [10], [12]]
    for s in shuf:
        out.append({"stage": "shuffle", "sizes": s})
    return out


def rows_of(arr):
    a = np.asarray(arr)
    if len(a) == 0:
        return []
    return [tuple(r) for r in a.reshape(len(a), -1).tolist()]


def judge_partition(sizes, rv, data, before, result, d):
    """Structure, partition, fold sizes, inputs untouched. -> fails"""
    fails = []
    k = len(rv)
    try:
        folds = list(result)
        ok = len(folds) == k and all(len(f) == len(sizes) for f in folds)
    except Exception:
        ok = False
    if not ok:
        return [("structure", "%s: expected %d folds each with %d environment arrays, got %r" % (d, k, len(sizes), [len(f) if hasattr(f, "__len__") else f for f in (result if hasattr(result, "__iter__") else [])]))]
    for e, n in enumerate(sizes):
        got = [r for i in range(k) for r in rows_of(folds[i][e])]
        want = rows_of(before[e])
        if sorted(got) != sorted(want):
            lost = len(set(want) - set(got))
            dup = len(got) - len(set(got))
            foreign = len(set(got) - set(want))
            sig = "rows-lost" if lost and not foreign else ("rows-duplicated" if dup else "rows-moved-or-foreign")
            fails.append((sig, "%s: environment %d: %d of %d observations lost, %d duplicated, %d foreign; fold sizes %s" % (
                d, e, lost, n, dup, foreign, [len(folds[i][e]) for i in range(k)])))
            continue
        # fold sizes: round(n * r_i) for i < last (either rounding at exact ties) whenever they fit in n
        lo, hi = [], []
        for i in range(k - 1):
            x = Fraction(rv[i][0], rv[i][1]) * n
            fl = x.numerator // x.denominator
            fr = x - fl
            if fr == Fraction(1, 2):
                lo.append(fl)
                hi.append(fl + 1)
            else:
                r = fl + (1 if fr > Fraction(1, 2) else 0)
                lo.append(r)
                hi.append(r)
        if sum(hi) <= n:
            for i in range(k - 1):
                if not (lo[i] <= len(folds[i][e]) <= hi[i]):
                    fails.append(("fold-size", "%s: environment %d (n=%d): fold %d has %d rows, round(n*ratio) = %s" % (
                        d, e, n, i, len(folds[i][e]), lo[i] if lo[i] == hi[i] else (lo[i], hi[i]))))
                    break
    for e in range(len(sizes)):
        if not np.array_equal(data[e], before[e]):
            fails.append(("input-modified", "%s: the input array of environment %d was modified" % (d, e)))
    return fails


def check_grid(sizes, rv, seed_kw):
    data = make_data(sizes)
    before = [a.copy() for a in data]
    ratios = floats(rv)
    kw = {} if seed_kw is None else {"random_state": seed_kw}
    d = "split_data(sizes=%s, ratios=%s%s)" % (sizes, ratios, "" if seed_kw is None else ", random_state=%d" % seed_kw)
    try:
        res = U.split_data(data, list(ratios), **kw)
    except ValueError as e:
        fsum = float(np.sum(ratios))
        return [("spurious-error" + (":float-sum" if fsum != 1.0 else ""), "%s raised ValueError(%s) although the ratios sum to 1 exactly (float sum %r)" % (d, e, fsum))]
    except Exception as e:
        return [("raises", "%s raised %r" % (d, e))]
    fails = judge_partition(sizes, rv, data, before, res, d)
    if not fails:
        # determinism in random_state (real numpy)
        res2 = U.split_data([a.copy() for a in before], list(ratios), **kw)
        same = all(np.array_equal(a, b) for f1, f2 in zip(res, res2) for a, b in zip(f1, f2))
        if not same:
            fails.append(("not-deterministic", "%s: two identical calls returned different splits" % d))
    return fails


def check_seed_changes():
    """seeds 0 / 1 / default differ at n = 12 (probability of coincidence 1/12! per pair)."""
    fails = []
    data = make_data([12])
    outs = {}
    for s in (0, 1, 42, 12345):
        r = U.split_data([data[0].copy()], [0.5, 0.5], random_state=s)
        outs[s] = np.vstack([r[0][0], r[1][0]]).tolist()
    r = U.split_data([data[0].copy()], [0.5, 0.5])
    if np.vstack([r[0][0], r[1][0]]).tolist() != outs[42]:
        pass          # the default seed is not part of the property
    seeds = sorted(outs)
    same = [(a, b) for i, a in enumerate(seeds) for b in seeds[i + 1:] if outs[a] == outs[b]]
    if same:
        fails.append(("seed-ignored", "split_data of 12 rows gives the same assignment for the different random_state values %s" % (same,)))
    if all(outs[s] == data[0].tolist() for s in outs):
        fails.append(("no-shuffle", "split_data does not shuffle: folds are the input order for every seed"))
    return fails


def check_seed_range(nseeds=1000):
    """every random_state in [0, nseeds) with the real generator, 3, 4 and 5 rows: every possible assignment of the observations to the
    folds (as sets: the property says which observations land in which fold, not in which order a fold lists them) occurs
    (probability of a miss under a uniform shuffle < 1e-12), each call a valid partition."""
    fails = []
    for n in (3, 4, 5):
        data = make_data([n])
        parts = set()
        sizes_seen = None
        for s in range(nseeds):
            try:
                r = U.split_data([data[0].copy()], [0.5, 0.25, 0.25], random_state=s)
                folds = [tuple(sorted(int(row[0]) for row in rows_of(f[0]))) for f in r]
            except Exception as e:
                import traceback
                if all("/mc/" in fr.filename for fr in traceback.extract_tb(e.__traceback__)[-1:]):
                    raise                   # raised inside the checker itself: a harness error, not a verdict
                return [("raises", "split_data(%d rows, random_state=%d) raised %r" % (n, s, e))]
            got = [x for f in folds for x in f]
            if sorted(got) != list(range(n)):
                return [("rows-lost", "split_data(%d rows, [0.5,0.25,0.25], random_state=%d) returned rows %s" % (n, s, got))]
            parts.add(tuple(folds))
            sizes_seen = [len(f) for f in folds]
        total = math.factorial(n)
        for k in sizes_seen:
            total //= math.factorial(k)
        if len(parts) != total:
            fails.append(("shuffle-not-uniform", "split_data of %d rows into folds of sizes %s: over random_state 0..%d only %d of the %d possible assignments of rows to folds occur" % (
                n, sizes_seen, nseeds - 1, len(parts), total)))
    return fails


def check_error(rv_floats):
    data = make_data([5, 3])
    d = "split_data(sizes=[5, 3], ratios=%s)" % (rv_floats,)
    try:
        U.split_data(data, list(rv_floats))
    except ValueError:
        return []
    except Exception as e:
        return [("wrong-exception", "%s raised %r, ValueError expected" % (d, e))]
    return [("bad-ratios-accepted", "%s accepted ratios summing to %r" % (d, float(np.sum(rv_floats))))]


def error_vectors():
    out = []
    for base in ([0.5, 0.5], [0.7, 0.2, 0.1], [1.0], [0.25, 0.25, 0.25, 0.25]):
        for off in (2e-6, 1e-3, 0.1, 0.5):
            for sgn in (1, -1):
                v = list(base)
                v[-1] = v[-1] + sgn * off
                out.append(v)
    return out


def shuffle_exec(sizes, answers, ratios):
    data = make_data(sizes)
    before = [a.copy() for a in data]
    with tape.Tape(answers=answers) as tp:
        try:
            res = ("ok", U.split_data(data, list(ratios), random_state=0))
        except tape.TapeError:
            raise
        except Exception as e:
            res = ("exc", type(e).__name__, repr(e)[:200])
    return res, tp, data, before


def explore_shuffle(sizes, acc, tier):
    fails = []
    rv = [[1, 2], [1, 4], [1, 4]]
    ratios = floats(rv)
    seen = set()
    kinds = set()
    unmodelled = [0]
    unrecognised = [0]
    total = 1
    for n in sizes:
        for t in range(2, n + 1):
            total *= t

    def run(prefix):
        res, tp, data, before = shuffle_exec(sizes, prefix, ratios)
        acc.states += 1
        acc.traces += 1
        acc.transitions += len(tp.points)
        if any(prefix):
            acc.nontrivial += 1
        d = "split_data(sizes=%s, ratios=%s) [shuffle answers %s]" % (sizes, ratios, list(prefix))
        kinds.update(pt["kind"] for pt in tp.points)
        if tp.unmodelled:
            acc.undecided += 1
            unmodelled[0] += 1
            return tp.points
        if res[0] != "ok":
            fails.append(("shuffle-exec", {"sizes": sizes, "answers": list(prefix)}, "raises", "%s raised %s" % (d, res[2])))
            return tp.points
        f = judge_partition(sizes, rv, data, before, res[1], d)
        for sig, msg in f:
            fails.append(("shuffle-exec", {"sizes": sizes, "answers": list(prefix)}, sig, msg))
        if not f:
            # which rows land in which fold (as sets). The cross-execution rule below presupposes that the shuffle is one permutation cell
            # block per environment, used either as a gather (sample[perm]) or as a scatter (out[perm] = sample); anything else (shuffled
            # fold labels, random keys, ...) is judged per execution only and by the seed-range stage
            perm_cells = [c["value"] for c in tp.trace if c["kind"] == "permutation"]
            pos = 0
            key = []
            for e, n in enumerate(sizes):
                perm = perm_cells[pos:pos + n]
                pos += n
                folds = [tuple(sorted(int(r[0]) for r in rows_of(res[1][i][e]))) for i in range(len(ratios))]
                key.append(tuple(folds))
                if len(perm) == n and sorted(perm) == list(range(n)):
                    ids = [int(before[e][j][0]) for j in range(n)]
                    inv = [0] * n
                    for a_, b_ in enumerate(perm):
                        inv[b_] = a_
                    cuts = np.cumsum([0] + [len(f) for f in folds])
                    gather = [tuple(sorted(ids[j] for j in perm[cuts[i]:cuts[i + 1]])) for i in range(len(folds))]
                    scatter = [tuple(sorted(ids[j] for j in inv[cuts[i]:cuts[i + 1]])) for i in range(len(folds))]
                    if folds != gather and folds != scatter:
                        unrecognised[0] += 1
                else:
                    unrecognised[0] += 1
            seen.add(tuple(key))
            acc.outcome([sizes, key])
        return tp.points

    cap = 30000
    n, capped = tape.explore(run, bound=None, max_exec=cap if total <= cap else 1)
    mode = "complete"
    if capped or total > cap:
        n, capped2 = tape.explore(run, bound=2, max_exec=60000)
        mode = "deviation<=2"
    acc.extra["shuffle_configs_" + mode] += 1
    # "distinct answers => distinct assignments" presupposes that the shuffle is drawn through permutation cells (rng.shuffle /
    # rng.permutation); other legitimate ways to shuffle (random keys + argsort, Fisher-Yates by integers) are judged per
    # execution only, their uniformity by the seed-range stage
    if unrecognised[0]:
        acc.extra["shuffle_configs_structure_not_recognised"] += 1
        acc.undecided += 1
    elif mode == "complete" and not fails and not unmodelled[0] and kinds <= {"permutation"}:
        want = 1
        for folds in (next(iter(seen)) if seen else ()):      # fold sizes are fixed by (n, ratios) and were judged per execution
            m = math.factorial(sum(len(f) for f in folds))
            for f in folds:
                m //= math.factorial(len(f))
            want *= m
        if seen and len(seen) != want:
            fails.append(("shuffle-config", {"sizes": sizes}, "shuffle-not-uniform", "split_data(sizes=%s): the %d shuffle answers give only %d of the %d possible assignments of rows to folds" % (
                sizes, total, len(seen), want)))
    return fails


def run_unit(unit):
    acc = Acc()
    st = unit["stage"]
    if st == "grid":
        seeds = (None, 0, 1, _SEED[0])
        for rv in unit["rvs"]:
            for sizes in size_pairs():
                for s in (seeds if len(sizes) == 1 else (None, 1)):
                    f = check_grid(sizes, rv, s)
                    acc.states += 1
                    acc.traces += 1
                    acc.transitions += 2
                    acc.extra["grid_calls"] += 1
                    fsum = float(np.sum(floats(rv)))
                    if fsum != 1.0:
                        acc.extra["grid_calls_float_sum_not_1"] += 1
                    if any((Fraction(a, b) * n).denominator != 1 for a, b in rv for n in sizes):
                        acc.nontrivial += 1      # some n*ratio is not an integer: rounding matters
                    acc.outcome([sizes, rv, s])
                    if len(acc.samples) < 1 and len(sizes) == 2 and len(rv) == 3:
                        acc.sample({"sizes": sizes, "ratios": floats(rv), "random_state": s})
                    for sig, msg in f:
                        acc.fail("grid", {"sizes": sizes, "rv": rv, "seed": s}, sig, msg)
    elif st == "errors":
        for v in error_vectors():
            f = check_error(v)
            acc.states += 1
            acc.traces += 1
            acc.transitions += 1
            acc.nontrivial += 1
            acc.extra["error_vectors"] += 1
            acc.outcome(["err", v])
            for sig, msg in f:
                acc.fail("error", {"ratios": v}, sig, msg)
        for sig, msg in check_seed_changes():
            acc.fail("seeds", {}, sig, msg)
        for sig, msg in check_seed_range():
            acc.fail("seed-range", {}, sig, msg)
        acc.extra["seed_range_executions"] += 3000
        acc.states += 1
        acc.transitions += 5
    else:
        for kind, case, sig, msg in explore_shuffle(unit["sizes"], acc, _TIER[0]):
            acc.fail(kind, case, sig, msg)
    return acc.out()


def replay(kind, case):
    if kind == "grid":
        return check_grid(case["sizes"], case["rv"], case["seed"])
    if kind == "error":
        return check_error(case["ratios"])
    if kind == "seeds":
        return check_seed_changes()
    if kind == "seed-range":
        return check_seed_range()
    if kind == "shuffle-config":
        return [(s, m) for _, _, s, m in explore_shuffle(case["sizes"], Acc(), _TIER[0])]
    fails = explore_shuffle(case["sizes"], Acc(), _TIER[0])
    return [(s, m) for k, c, s, m in fails if c.get("answers") == case["answers"]]


def describe(tier, seed):
    return {
        "technique": "exhaustive small-scope enumeration of (sizes, ratio vector, seed) on the real code vs exact-rational partition oracle; shuffle outcomes by "
                     "exhaustive enumeration of harness-owned RNG answers (stateless DFS)",
        "rule": "sizes: every single environment in {0,1,2,3,5,7,9,10,12} (thorough: 18 sizes up to 25, triples) and unequal pairs; ratio vectors: every composition of 10 into <=4 positive parts /10 (130), "
                "thirds, sixths, sevenths, ninths, [1], vectors with zero parts - all summing to 1 exactly whatever their float sum; seeds {default, 0, 1, VERIF_SEED}; "
                "oracle: per environment the multiset of rows over the folds equals the input, fold i<last has round(n*r_i) rows (either rounding at exact ties, only when the "
                "sizes fit in n), inputs untouched, same call twice identical; 32 erroneous vectors (off by 2e-6 .. 0.5) must raise ValueError; under the owned RNG all "
                "n! shuffle answers for n<=%d (and pairs of environments), deviation<=2 beyond: every execution a valid partition and - when the shuffle is one permutation "
                "block per environment used as a gather or a scatter - the answers reach every possible assignment of rows to folds (as sets: which observations land "
                "in which fold, not the order inside a fold); real numpy, random_state 0..999 on 3, 4 and 5 rows: every possible assignment occurs. "
                "non-trivial: some n*ratio is not an integer" % (4 if tier == "quick" else 5),
        "exhaustive": True,
        "bounds": {"sizes": list(SIZES_T if tier == "thorough" else SIZES), "shuffle_complete_n": 4 if tier == "quick" else 5},
        "assumptions": ["numpy's shuffle is uniform over permutations (the facade enumerates them all)", "ratio vectors with negative entries are outside the quantifier"],
    }
