"""C16 - structural decompositions of a graph are exact and weight-preserving (E1)."""
import itertools

import numpy as np

import sempler.utils as U

from mc.run import Acc
from mc.refmodel import graphs as G
from mc.checks import _g
from mc.spaces import split_list

ID = "C16"
MANIFEST = {"engine": "E1"}


def units(tier, seed):
    out = []
    for p in (0, 1, 2, 3):
        out += _g.pdag_units("pdag", p, 1)
        out += _g.dag_units("wdag", p, 1)
    out += _g.pdag_units("pdag", 4, 16)
    out += _g.dag_units("wdag", 4, 8)
    if tier == "quick":
        out += [{"stage": "pdag", "p": 5, "codes": c} for c in split_list(_g.sparse_codes(5, 3, (1, 2, 3)), 8)]
    else:
        out += _g.pdag_units("pdag5", 5, 512)          # every 5-node PDAG with acyclic directed part (765,664), 0/1 int
        out += _g.dag_units("wdag", 5, 64)
    # wide graphs (p = 10, node indices >= 8): every PDAG with <= 2 edges and targeted colliders
    out += [{"stage": "pdag", "p": _g.WIDE_P, "codes": c} for c in split_list(_g.wide_sparse_codes("pdag"), 16)]
    out.append({"stage": "wide-targeted"})
    out.append({"stage": "big"})         # 70 nodes, edges on node indices >= 64
    return out


def check_graph(p, ch, und, A):
    fails = []
    n = 0
    Al = A.tolist()
    pa = G.parents(p, ch)
    adjm = G.adjacency(p, ch, und)

    def bad(sig, msg):
        fails.append((sig, msg))

    def run(name, *args):
        nonlocal n
        n += 1
        r = _g.call(getattr(U, name), *args)
        if r[0] != "ok":
            bad(name + ":raises", "%s on %s raised %s" % (name, Al, r[2]))
            return None
        return r[1]

    # only_directed / only_undirected
    D = run("only_directed", A.copy())
    Un = run("only_undirected", A.copy())
    if D is not None and Un is not None:
        D, Un = np.asarray(D), np.asarray(Un)
        wantD = [[Al[i][j] if ch[i] >> j & 1 else 0 for j in range(p)] for i in range(p)]
        wantU = [[Al[i][j] if und[i] >> j & 1 else 0 for j in range(p)] for i in range(p)]
        if D.tolist() != wantD:
            bad("only_directed", "only_directed(%s) = %s, expected %s (directed edges with their original entries)" % (Al, D.tolist(), wantD))
        if Un.tolist() != wantU:
            bad("only_undirected", "only_undirected(%s) = %s, expected %s" % (Al, Un.tolist(), wantU))
        if D.shape == A.shape and Un.shape == A.shape and (D + Un).tolist() != Al:
            bad("decomposition-sum", "only_directed + only_undirected != input for %s" % (Al,))
    # skeleton
    S = run("skeleton", A.copy())
    wantS = [[1 if adjm[i] >> j & 1 else 0 for j in range(p)] for i in range(p)]
    if S is not None and np.asarray(S).tolist() != wantS:
        bad("skeleton", "skeleton(%s) = %s, expected %s" % (Al, np.asarray(S).tolist(), wantS))
    # edge lists
    ue = run("undirected_edges", A.copy())
    if ue is not None:
        got = sorted(tuple(sorted((int(a), int(b)))) for a, b in ue)
        want = sorted((i, j) for (i, j) in G.pairs(p) if und[i] >> j & 1)
        if got != want:
            bad("undirected_edges", "undirected_edges(%s) = %s, expected each of %s once" % (Al, list(ue), want))
    de = run("directed_edges", A.copy())
    if de is not None:
        got = sorted((int(a), int(b)) for a, b in de)
        want = sorted((i, j) for i in range(p) for j in G.bits(ch[i]))
        if got != want:
            bad("directed_edges", "directed_edges(%s) = %s, expected %s" % (Al, got, want))
    ew = run("edge_weights", A.copy())
    if ew is not None:
        got = {(int(k[0]), int(k[1])): v for k, v in ew.items()}
        want = {(i, j): Al[i][j] for i in range(p) for j in range(p) if Al[i][j] != 0}
        if set(got) != set(want) or any(got[k] != want[k] for k in want) or len(ew) != len(want):
            bad("edge_weights", "edge_weights(%s) = %s, expected %s" % (Al, got, want))
    # v-structures
    vs = run("vstructures", A.copy())
    if vs is not None:
        got = set((int(a), int(b), int(c)) for a, b, c in vs)
        want = set(G.vstructs(p, ch, und))
        if got != want:
            bad("vstructures", "vstructures(%s) = %s, unshielded colliders are %s" % (Al, sorted(got), sorted(want)))
    # moral graph
    mg = run("moral_graph", A.copy())
    if mg is not None:
        want = [row[:] for row in wantS]
        for c in range(p):
            ps = G.bits(pa[c])
            for a in ps:
                for b in ps:
                    if a != b:
                        want[a][b] = 1
        if [list(r) for r in G.pattern(np.asarray(mg).tolist())] != want:
            bad("moral_graph", "moral_graph(%s) = %s, expected %s" % (Al, np.asarray(mg).tolist(), want))
    # degrees / is_complete
    dg = run("degrees", A.copy())
    if dg is not None and [int(x) for x in np.asarray(dg)] != [G.popcount(adjm[i]) for i in range(p)]:
        bad("degrees", "degrees(%s) = %s, skeleton degrees are %s" % (Al, list(dg), [G.popcount(adjm[i]) for i in range(p)]))
    ic = run("is_complete", A.copy())
    want = all(adjm[i] == ((1 << p) - 1) & ~(1 << i) for i in range(p))
    if ic is not None and bool(ic) != want:
        bad("is_complete", "is_complete(%s) = %r, expected %s" % (Al, ic, want))
    # subsets: induced_subgraph, is_clique (every subset for p <= 5; pairs, singletons, full set and a few mixed
    # triples for the wide graphs)
    if p <= 5:
        masks = range(1 << p)
    elif p != _g.WIDE_P:    # 70-node graphs and long paths: every subset of size <= 3 of the nodes that carry an edge (plus node 0), the empty and the full set
        act = sorted(set([0] + [i for i in range(p) if adjm[i]]))
        masks = [0, (1 << p) - 1] + [sum(1 << i for i in c) for k in (1, 2, 3) for c in itertools.combinations(act, k)]
    else:
        masks = [0, (1 << p) - 1] + [1 << i for i in range(p)] + [(1 << i) | (1 << j) for i in range(p) for j in range(i + 1, p)]
        masks += [(1 << 1) | (1 << 8) | (1 << 4), (1 << 2) | (1 << 9) | (1 << 0), (1 << 3) | (1 << 8) | (1 << 9) | (1 << 4)]
    for m in masks:
        Sb = G.bits(m)
        r = run("induced_subgraph", set(Sb), A.copy())
        if r is not None:
            want = [[Al[i][j] if (m >> i & 1 and m >> j & 1) else 0 for j in range(p)] for i in range(p)]
            if np.asarray(r).tolist() != want:
                bad("induced_subgraph", "induced_subgraph(%s, %s) = %s, expected %s" % (Sb, Al, np.asarray(r).tolist(), want))
        r = run("is_clique", set(Sb), A.copy())
        if r is not None:
            want = all((adjm[i] >> j & 1) for i in Sb for j in Sb if i != j)
            if bool(r) != want:
                bad("is_clique", "is_clique(%s, %s) = %r, expected %s" % (Sb, Al, r, want))
    return fails, n


def build(p, code, lab):
    ch, und = G.decode(p, code)
    if not G.is_acyclic(p, ch):
        return None
    if lab == "pdag":
        return ch, und, _g.pdag_matrix(p, ch, und)
    if lab == "pdagF":
        return ch, und, np.asfortranarray(_g.pdag_matrix(p, ch, und))
    if lab == "pdagf":
        return ch, und, _g.pdag_matrix(p, ch, und).astype(float)
    if lab in _g.WPDAG_LABS:
        return (ch, und, _g.weighted_pdag(p, ch, und, lab)) if any(und) else None
    if any(und):
        return None
    return ch, und, _g.np_dag(p, ch, lab)


def run_unit(unit):
    acc = Acc()
    if unit["stage"] == "wide-targeted":
        p = _g.WIDE_P
        for k, ch in enumerate(_g.wide_targeted()):
            for lab in ("binint", "generic", "signs:5", "signs:2"):
                A = _g.np_dag(p, ch, lab)
                fails, n = check_graph(p, ch, [0] * p, A)
                acc.states += 1
                acc.transitions += n
                acc.traces += 1
                acc.nontrivial += 1
                acc.extra["wide_targeted"] += 1
                acc.outcome(["wide", k, lab])
                for sig, msg in fails:
                    acc.fail("wide", {"k": k, "lab": lab}, sig, msg)
        return acc.out()
    if unit["stage"] == "big":
        p = _g.BIG_P
        fam = [(n_, _g.BIG_P, c_, u_) for n_, c_, u_ in _g.big_graphs()] + _g.path_graphs()
        for k, (name, p, ch, und) in enumerate(fam):
            for lab in ("pdag",) + (() if any(und) else ("generic", "tiny")):
                A = _g.pdag_matrix(p, ch, und) if lab == "pdag" else _g.np_dag(p, ch, lab)
                fails, n = check_graph(p, ch, und, A)
                acc.states += 1
                acc.transitions += n
                acc.traces += 1
                acc.nontrivial += 1
                acc.extra["big_p70"] += 1
                acc.outcome(["big", k, lab])
                for sig, msg in fails:
                    acc.fail("big", {"k": k, "lab": lab}, sig, msg)
        return acc.out()
    p = unit["p"]
    labs = ("pdag", "pdagf", "pdagF") if unit["stage"] == "pdag" else ("neg", "cancel", "generic", "int", "tiny")
    if unit["stage"] == "pdag5":
        labs = ("pdag",)
    if p > 5:
        labs = ("pdag",)
    codes = unit["codes"] if "codes" in unit else range(unit["lo"], unit["hi"])
    for code in codes:
        labs_here = labs
        if unit["stage"] == "wdag" and p <= 4:
            ch0, und0 = G.decode(p, code)
            labs_here = labs + tuple(_g.sign_labs(p, ch0)) if not any(und0) else labs
        for lab in labs_here:
            b = build(p, code, lab)
            if b is None:
                continue
            ch, und, A = b
            fails, n = check_graph(p, ch, und, A)
            acc.states += 1
            acc.transitions += n
            acc.traces += 1
            acc.extra["%s_p%d" % (unit["stage"], p)] += 1
            if G.nedges(p, code) >= 2:
                acc.nontrivial += 1
            acc.outcome([len(G.vstructs(p, ch, und)), G.nedges(p, code)])
            if G.vstructs(p, ch, und) and any(und) and len(acc.samples) < 1:
                acc.sample({"graph": A.tolist(), "vstructures": sorted(G.vstructs(p, ch, und))})
            for sig, msg in fails:
                acc.fail("graph", {"p": p, "code": code, "lab": lab}, sig, msg)
    return acc.out()


def replay(kind, case):
    if kind == "big":
        name, P_, ch, und = ([(n_, _g.BIG_P, c_, u_) for n_, c_, u_ in _g.big_graphs()] + _g.path_graphs())[case["k"]]
        A = _g.pdag_matrix(P_, ch, und) if case["lab"] == "pdag" else _g.np_dag(P_, ch, case["lab"])
        return check_graph(P_, ch, und, A)[0]
    if kind == "wide":
        ch = _g.wide_targeted()[case["k"]]
        return check_graph(_g.WIDE_P, ch, [0] * _g.WIDE_P, _g.np_dag(_g.WIDE_P, ch, case["lab"]))[0]
    b = build(case["p"], case["code"], case["lab"])
    return check_graph(case["p"], b[0], b[1], b[2])[0] if b else []


def describe(tier, seed):
    return {
        "technique": "exhaustive small-scope enumeration of graphs and node subsets on the real code vs set-based definitions",
        "rule": "every PDAG with acyclic directed part p<=4 (int and float 0/1; + sparse 5-node PDAGs) and every DAG p<=4 (p=5 thorough) under "
                "neg/cancel/generic/int weights and every +-1 sign assignment of the edges (p<=4); 7 graphs on 70 nodes whose edges sit on node indices >= 64 (collider, chains, fork, PDAGs with and without extension) and 18 long paths (undirected / directed / mixed, natural and scrambled labels, 6, 7 and 11 nodes); wide graphs: every 10-node PDAG with <=2 edges and 80 targeted "
                "colliders whose parents mix node indices below and above 8 (set iteration order); per graph: only_directed, only_undirected (entries preserved, sum = input), skeleton, "
                "undirected_edges, directed_edges, edge_weights, vstructures, moral_graph, degrees, is_complete, and induced_subgraph / is_clique "
                "for every node subset; non-trivial: >= 2 edges",
        "exhaustive": True,
        "bounds": {"p_exhaustive": 5 if tier == "thorough" else 4, "p_dags_weighted": 5 if tier == "thorough" else 4},
        "assumptions": ["weighted undirected edges are outside the quantifier (weights only on DAG matrices)"],
    }
