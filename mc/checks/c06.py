"""C06 - population regression and MSE are the least-squares solution (E1)."""
import itertools

import numpy as np

import sempler

from mc.run import Acc
from mc.refmodel import graphs as G
from mc.refmodel import gauss as Q
from mc.checks import _g
from mc import spaces
from mc import scmspace as SP
from mc.spaces import split_list

ID = "C06"
MANIFEST = {"engine": "E1"}


def units(tier, seed):
    out = []
    for p in (1, 2, 3):
        Ls = list(spaces.lower_factors(p))
        for part in split_list(Ls, 8 if p == 3 else 1):
            out.append({"stage": "dist", "p": p, "Ls": part})
    Ls4 = list(spaces.lower_factors(4, diag_choices=[(1, 2, 1, 2)]))
    Ls4 = Ls4 if tier == "thorough" else Ls4[::9]
    for part in split_list(Ls4, 27 if tier == "thorough" else 9):
        out.append({"stage": "dist", "p": 4, "Ls": part})
    for p in (1, 2, 3):
        dags = SP.dag_list(p)
        for part in split_list(dags, 12 if p == 3 else 1):
            out.append({"stage": "lganm", "p": p, "codes": [c for c, _ in part], "labs": ["generic", "cancel", "int", "intmodel"]})
    dags4 = SP.dag_list(4)
    dags4 = dags4 if tier == "thorough" else dags4[::30]
    for part in split_list(dags4, 181 if tier == "thorough" else 19):
        out.append({"stage": "lganm", "p": 4, "codes": [c for c, _ in part], "labs": ["generic"]})
    return out


def forms(S):
    """Argument forms for a regressor sequence S (list of ints)."""
    out = [("list", list(S)), ("array", np.array(S, dtype=int))]
    if len(S) == 1:
        out.append(("int", S[0]))
    if len(S) >= 1 and list(S) == list(range(S[0], S[0] + len(S))):
        out.append(("range", range(S[0], S[0] + len(S))))
    if len(S) == 0:
        out.append(("tuple", ()))
    return out


def check_regress(dist, muF, SF, y, S, form, arg, desc0):
    out = []
    n = 0
    p = len(muF)
    ec, ei = Q.regress(muF, SF, y, S)
    ev = Q.cond_var(SF, y, S)
    desc = "%s: regress/mse(y=%d, Xs=%s [%s])" % (desc0, y, list(S), form)
    r = _g.call(dist.regress, y, arg)
    n += 1
    if r[0] != "ok":
        out.append(("regress:raises", "%s raised %s" % (desc, r[2])))
    else:
        coefs, icpt = r[1]
        coefs = np.asarray(coefs, dtype=float)
        if coefs.shape != (p,):
            out.append(("regress:shape", "%s: coefficient shape %s" % (desc, coefs.shape)))
        else:
            if any(coefs[j] != 0 for j in range(p) if j not in S):
                out.append(("regress:nonzero-outside-S", "%s: coefficients %s are not zero outside S" % (desc, coefs.tolist())))
            if not Q.close_vec(coefs.tolist(), ec):
                out.append(("regress:coefficients", "%s: coefficients %s, exact %s" % (desc, coefs.tolist(), Q.fl(ec))))
            # the defining orthogonality conditions, evaluated exactly on the returned numbers
            b = Q.vec(coefs.tolist())
            for s in S:
                resid = SF[y][s] - sum((b[j] * SF[j][s] for j in range(p)), Q.F(0))
                if abs(float(resid)) > 1e-9 * max(1.0, max(abs(float(v)) for row in SF for v in row)):
                    out.append(("regress:not-orthogonal", "%s: residual covariance with regressor %d is %g" % (desc, s, float(resid))))
                    break
            if not Q.close_num(icpt, ei, scale=max(abs(float(m)) for m in muF)):
                out.append(("regress:intercept", "%s: intercept %r, exact %s" % (desc, icpt, float(ei))))
    r = _g.call(dist.mse, y, arg)
    n += 1
    if r[0] != "ok":
        out.append(("mse:raises", "%s raised %s" % (desc, r[2])))
    else:
        v = float(r[1])
        scale = float(SF[y][y])
        if not Q.close_num(v, ev, scale=scale):
            out.append(("mse:value", "%s: mse %r, exact conditional variance %s" % (desc, v, float(ev))))
        if v < -1e-9 * max(1.0, scale):
            out.append(("mse:negative", "%s: mse %r < 0" % (desc, v)))
    return out, n


def check_dist(p, L, mu, dtype):
    S = spaces.sigma_of(L)
    if dtype == "int":
        dist = sempler.NormalDistribution(np.array(mu, dtype=np.int64), np.array(S, dtype=np.int64))
    else:
        dist = sempler.NormalDistribution(np.array(mu, dtype=float), np.array(S, dtype=float))
    # a second distribution with other means: mse must not depend on the means
    dist2 = sempler.NormalDistribution(np.array([7.5 - 3 * k for k in range(p)]), np.array(S, dtype=float))
    muF, SF = Q.vec(mu), Q.mat(S)
    desc0 = "NormalDistribution(mean=%s, cov=%s, %s)" % (mu, S, dtype)
    fails, n = [], 0
    for y in range(p):
        for k in range(0, p + 1):
            for Sq in itertools.permutations(range(p), k):
                Sq = list(Sq)
                for form, arg in forms(Sq):
                    f, c = check_regress(dist, muF, SF, y, Sq, form, arg, desc0)
                    n += c
                    for sig, msg in f:
                        fails.append((sig, msg, {"y": y, "S": Sq, "form": form}))
                # independence of the means (mse) - library vs library on the same covariance
                a, b = _g.call(dist.mse, y, Sq), _g.call(dist2.mse, y, Sq)
                n += 2
                if a[0] == "ok" and b[0] == "ok" and abs(float(a[1]) - float(b[1])) > 1e-9 * max(1.0, S[y][y]):
                    fails.append(("mse:depends-on-mean", "%s: mse(%d,%s) = %r but %r after replacing the mean vector" % (desc0, y, Sq, a[1], b[1]), {"y": y, "S": Sq, "form": "means"}))
        if len(fails) > 8:
            break
    return fails, n


def check_lganm(p, code, lab, assign):
    ch, _ = G.decode(p, code)
    if lab == "intmodel":          # int64 W, means and variances with fractional intervention parameters
        W, means, variances = SP.model(p, ch, "int", "int")
    else:
        W, means, variances = SP.model(p, ch, lab if lab != "int" else "int", "float" if lab != "int" else "intW")
    lib, ora = SP.assignment_dicts(p, assign, "tuple")
    desc0 = "LGANM(W=%s, means=%s, variances=%s) under do=%s noise=%s shift=%s" % (W.tolist(), means.tolist(), variances.tolist(), lib[0], lib[1], lib[2])
    try:
        d = sempler.LGANM(W, means, variances).sample(population=True, do_interventions=dict(lib[0]),
                                                       noise_interventions=dict(lib[1]), shift_interventions=dict(lib[2]))
    except Exception as e:
        return [("lganm:raises", "%s raised %r" % (desc0, e))], 1
    _, _, Wp, mup, varp = Q.scm_law(W.tolist(), means.tolist(), variances.tolist(), do=ora[0], noise=ora[1], shift=ora[2])
    out, n = [], 1
    for j in range(p):
        pa = [i for i in range(p) if Wp[i][j] != 0]
        r = _g.call(d.regress, j, pa)
        m = _g.call(d.mse, j, pa)
        n += 2
        if r[0] != "ok" or m[0] != "ok":
            out.append(("causal:raises", "%s: regress/mse(%d, %s) raised %s" % (desc0, j, pa, (r if r[0] != "ok" else m)[2])))
            continue
        coefs, icpt = r[1]
        want = [Wp[i][j] for i in range(p)]
        if not Q.close_vec(np.asarray(coefs).tolist(), want):
            out.append(("causal:coefficients", "%s: regress(%d, pa=%s) coefficients %s, incoming weights %s" % (desc0, j, pa, np.asarray(coefs).tolist(), Q.fl(want))))
        if not Q.close_num(icpt, mup[j], scale=max(abs(float(x)) for x in mup)):
            out.append(("causal:intercept", "%s: regress(%d, pa=%s) intercept %r, noise mean %s" % (desc0, j, pa, icpt, float(mup[j]))))
        if not Q.close_num(m[1], varp[j], scale=float(max(varp))):
            out.append(("causal:mse", "%s: mse(%d, pa=%s) = %r, noise variance %s" % (desc0, j, pa, m[1], float(varp[j]))))
    return out, n


def run_unit(unit):
    acc = Acc()
    p = unit["p"]
    if unit["stage"] == "dist":
        for L in unit["Ls"]:
            for dtype, means in (("float", spaces.MEANS[p][1:]), ("int", [[1, -2, 3, -1][:p]])):
                for mu in means:
                    fails, n = check_dist(p, L, mu, dtype)
                    acc.states += 1
                    acc.transitions += n
                    acc.traces += 1
                    acc.extra["distributions_p%d" % p] += 1
                    if p >= 2 and any(L[i][j] for i in range(p) for j in range(i)):
                        acc.nontrivial += 1
                    acc.outcome([spaces.sigma_of(L), mu])
                    if len(acc.samples) < 1 and p >= 3 and L[2][0] and L[1][0]:
                        acc.sample({"mean": mu, "covariance": spaces.sigma_of(L), "dtype": dtype, "calls_compared": n})
                    for sig, msg, sub in fails:
                        acc.fail("dist", {"p": p, "L": L, "mu": mu, "dtype": dtype, "sub": sub}, sig, msg)
    else:
        for code in unit["codes"]:
            for lab in unit["labs"]:
                for assign in itertools.product(range(8), repeat=p):
                    fails, n = check_lganm(p, code, lab, assign)
                    acc.states += 1
                    acc.transitions += n
                    acc.traces += 1
                    acc.extra["lganm_p%d" % p] += 1
                    if G.nedges(p, code) >= 1 and any(assign):
                        acc.nontrivial += 1
                    acc.outcome([code, lab, assign[:2]])
                    if len(acc.samples) < 1 and p == 3 and G.nedges(p, code) >= 2 and assign[1] == 6:
                        acc.sample({"dag_code": code, "weights": lab, "assignment(bit1=do,2=noise,4=shift)": list(assign)})
                    for sig, msg in fails:
                        acc.fail("lganm", {"p": p, "code": code, "lab": lab, "assign": list(assign)}, sig, msg)
    return acc.out()


def replay(kind, case):
    if kind == "lganm":
        return check_lganm(case["p"], case["code"], case["lab"], tuple(case["assign"]))[0]
    p, L, mu, dtype, sub = case["p"], case["L"], case["mu"], case["dtype"], case["sub"]
    fails, _ = check_dist(p, L, mu, dtype)
    return [(s, m) for s, m, _ in fails]


def describe(tier, seed):
    return {
        "technique": "exhaustive small-scope enumeration on the real code vs exact rational normal equations / conditional variances",
        "rule": "regress and mse for every distribution of the integer L L^T alphabet (p<=3 all, p=4 family) x every target y x every ordered "
                "regressor sequence (all subsets incl. empty and those containing y, every permutation) in list/ndarray/int/range/tuple forms: "
                "coefficients vs exact solution, zero outside S, exact orthogonality of the residual, intercept, mse = exact conditional "
                "variance (>=0, independent of the means; order invariance and monotonicity follow from equality with the exact value for "
                "every order and every subset); for every LGANM p<=3 (3 weight labelings and an all-int64 model; p=4 generic weights every 30th DAG quick / all "
                "thorough) under all 8^p intervention assignments with positive variances: regress(j, pa(j)) = incoming weights, noise mean, "
                "noise variance of the intervened model. non-trivial: correlated variables / intervened model with edges",
        "exhaustive": True,
        "bounds": {"p_exhaustive": 3, "p_max": 4},
        "assumptions": ["tolerance 1e-9 relative to max(1, |exact|); all alphabets dyadic and well conditioned (det >= 1)"],
    }
