"""C18 - add_edges / remove_edges change exactly the requested number of edges (E1 + E2)."""
import numpy as np

import sempler.utils as U

from mc.run import Acc
from mc.env import tape
from mc.refmodel import graphs as G
from mc.checks import _g
from mc.spaces import split_list

ID = "C18"
MANIFEST = {"engine": "E1+E2"}
_TIER = ["quick"]
_SEED = [0]


def prepare(tier, seed):
    _TIER[0] = tier
    _SEED[0] = seed


def units(tier, seed):
    out = []
    for p in (1, 2, 3):
        out.append({"stage": "grid", "p": p, "codes": G.dag_codes(p)})
        out += [{"stage": "tape", "p": p, "codes": c, "bound": None} for c in split_list(G.dag_codes(p), 5 if p == 3 else 1)]
    for part in split_list(G.dag_codes(4), 16):
        out.append({"stage": "grid", "p": 4, "codes": part})
    step = 8 if tier == "quick" else 2
    for part in split_list(G.dag_codes(4)[::step], 16 if tier == "quick" else 48):
        out.append({"stage": "tape", "p": 4, "codes": part, "bound": 2})
    if tier == "thorough":
        for part in split_list(_g.sparse_codes(5, 4, (1, 2)), 32):
            out.append({"stage": "grid", "p": 5, "codes": part})
    out.append({"stage": "seed-range"})
    for p in (6, 7, 8, 10, 12, 13):
        out.append({"stage": "paths", "p": p})
    return out


def judge(fn, p, A0, k, result, d):
    """A0: input pattern (tuple of tuples), result ('ok', M) | ('exc', ...)."""
    nedges = sum(map(sum, A0))
    feasible = k <= nedges if fn == "remove" else k <= p * (p - 1) // 2 - nedges
    if result[0] == "exc":
        if result[1] == "ValueError" and not feasible:
            return []
        if result[1] == "ValueError":
            return [("spurious-error", "%s raised ValueError although the request is feasible" % d)]
        return [("wrong-exception:" + result[1], "%s raised %s" % (d, result[2]))]
    if not feasible:
        return [("no-error", "%s returned a graph although the request is infeasible" % d)]
    M = np.asarray(result[1])
    if M.shape != (p, p):
        return [("shape", "%s returned shape %s" % (d, M.shape))]
    R = G.pattern(M.tolist())
    out = []
    n2 = sum(map(sum, R))
    if fn == "remove":
        if any(R[i][j] and not A0[i][j] for i in range(p) for j in range(p)):
            out.append(("not-a-subgraph", "%s = %s is not a subgraph of the input" % (d, R)))
        if nedges - n2 != k:
            out.append(("wrong-count", "%s removed %d edge(s), requested %d" % (d, nedges - n2, k)))
    else:
        if any(A0[i][j] and not R[i][j] for i in range(p) for j in range(p)):
            out.append(("not-a-supergraph", "%s = %s lost an edge of the input" % (d, R)))
        if n2 - nedges != k:
            out.append(("wrong-count", "%s added %d edge(s), requested %d" % (d, n2 - nedges, k)))
        if any(R[i][i] for i in range(p)):
            out.append(("self-loop", "%s = %s has a self-loop" % (d, R)))
        if any(R[i][j] and R[j][i] for i in range(p) for j in range(i + 1, p)):
            out.append(("two-cycle", "%s = %s has a two-cycle" % (d, R)))
        elif G.pattern_has_cycle([list(r) for r in R]):
            out.append(("cyclic", "%s = %s is not acyclic" % (d, R)))
    return out


def one_call(fn, p, code, lab, k, seed_kw, answers=None):
    ch, _ = G.decode(p, code)
    if lab == "fortran":          # same 0/1 graph in column-major memory order (what B.T or np.asfortranarray gives)
        A = np.asfortranarray(_g.np_dag(p, ch, "binint"))
    else:
        A = _g.np_dag(p, ch, lab)
    before = A.copy()
    A0 = G.pattern(A.tolist())
    f = U.remove_edges if fn == "remove" else U.add_edges
    kw = {} if seed_kw is None else {"random_state": seed_kw}
    d = "%s_edges(%s, %d%s)%s" % (fn, A.tolist(), k, "" if seed_kw is None else ", random_state=%r" % seed_kw,
                                 "" if answers is None else " [RNG answers %s]" % list(answers))
    tp = None
    if answers is None:
        r = _g.call(f, A, k, **kw)
    else:
        with tape.Tape(answers=answers) as tp:
            r = _g.call(f, A, k, **kw)
    fails = judge(fn, p, A0, k, r, d)
    if not np.array_equal(A, before) or A.dtype != before.dtype:
        fails.append(("input-modified", "%s modified its input" % d))
    return fails, r, tp


def max_count(fn, p, code):
    n = G.nedges(p, code)
    return n if fn == "remove" else p * (p - 1) // 2 - n


def run_grid(unit, acc):
    p = unit["p"]
    for code in unit["codes"]:
        ch, und = G.decode(p, code)
        if any(und) or not G.is_acyclic(p, ch):
            continue
        for lab in ("binint", "generic", "fortran"):
            for fn in ("remove", "add"):
                for k in range(0, max_count(fn, p, code) + 2):
                    for s in (None, 0, 1, _SEED[0]):
                        fails, r, _ = one_call(fn, p, code, lab, k, s)
                        acc.states += 1
                        acc.traces += 1
                        acc.transitions += 1
                        acc.extra["grid_calls_p%d" % p] += 1
                        if 0 < k <= max_count(fn, p, code):
                            acc.nontrivial += 1
                        if not fails and r[0] == "ok" and s is not None:
                            _, r2, _ = one_call(fn, p, code, lab, k, s)
                            acc.transitions += 1
                            if r2[0] != "ok" or not np.array_equal(r[1], r2[1]):
                                fails.append(("not-deterministic", "%s_edges(code %d, %d, random_state=%d) differs between two identical calls" % (fn, code, k, s)))
                        acc.outcome([fn, code, k, np.asarray(r[1]).tolist() if r[0] == "ok" else r[1]])
                        for sig, msg in fails:
                            acc.fail("grid", {"fn": fn, "p": p, "code": code, "lab": lab, "k": k, "seed": s}, sig, msg)
        if len(acc.samples) < 1 and G.nedges(p, code) >= 2:
            acc.sample({"dag": G.to_matrix(p, ch, und), "remove_counts": list(range(0, G.nedges(p, code) + 2)),
                        "add_counts": list(range(0, max_count("add", p, code) + 2))})


def run_tape(unit, acc):
    p, bound = unit["p"], unit["bound"]
    for code in unit["codes"]:
        ch, und = G.decode(p, code)
        if any(und) or not G.is_acyclic(p, ch):
            continue
        for fn in ("remove", "add"):
            mx = max_count(fn, p, code)
            counts = range(0, mx + 1) if bound is None else sorted({min(1, mx), mx})
            for k in counts:
                results = set()
                kinds = set()
                unm = [0]

                def run(prefix):
                    fails, r, tp = one_call(fn, p, code, "binint", k, 0, answers=prefix)
                    acc.states += 1
                    acc.traces += 1
                    acc.transitions += len(tp.points)
                    kinds.update(pt["kind"] for pt in tp.points)
                    if tp.unmodelled:
                        acc.undecided += 1
                        unm[0] += 1
                        return tp.points
                    if any(prefix):
                        acc.nontrivial += 1
                    if r[0] == "ok":
                        results.add(G.pattern(np.asarray(r[1]).tolist()))
                    for sig, msg in fails:
                        acc.fail("tape", {"fn": fn, "p": p, "code": code, "k": k, "answers": list(prefix)}, sig, msg)
                    return tp.points
                n, capped = tape.explore(run, bound=bound, max_exec=100000)
                acc.extra["tape_configs_%s" % ("complete" if bound is None and not capped else "deviation<=%s" % bound)] += 1
                acc.outcome([fn, code, k, len(results)])
                # every feasible outcome is reachable: removing k edges can give any k-subset
                # presupposes that the removed edges are drawn through choice cells; other legitimate samplers are left to the seed-range stage
                if fn == "remove" and bound is None and not capped and not unm[0] and kinds <= {"choice"}:
                    import math
                    if len(results) != math.comb(G.nedges(p, code), k):
                        acc.fail("tape-config", {"fn": fn, "p": p, "code": code, "k": k}, "remove-not-uniform",
                                 "remove_edges(code %d, %d): over all RNG answers only %d of the %d edge subsets are removed" % (code, k, len(results), math.comb(G.nedges(p, code), k)))


def run_seed_range(acc, nseeds=300):
    """every random_state in [0, nseeds) with the real generator on a 3-edge and a 2-edge DAG: every edge subset is removed by
    some seed, every feasible single addition is made by some seed (miss probability < 1e-40 under uniform sampling)."""
    import itertools
    A = np.array([[0, 1, 1, 0], [0, 0, 1, 0], [0, 0, 0, 0], [0, 0, 0, 0]])
    edges = [(0, 1), (0, 2), (1, 2)]
    for k in (1, 2):
        seen = set()
        for s in range(nseeds):
            r = _g.call(U.remove_edges, A.copy(), k, random_state=s)
            acc.states += 1
            acc.transitions += 1
            acc.traces += 1
            acc.extra["seed_range_executions"] += 1
            f = judge("remove", 4, G.pattern(A.tolist()), k, r, "remove_edges(%s, %d, random_state=%d)" % (A.tolist(), k, s))
            for sig, msg in f:
                acc.fail("seed-range", {"k": k}, sig, msg)
            if f or r[0] != "ok":
                return
            seen.add(G.pattern(np.asarray(r[1]).tolist()))
        want = len(list(itertools.combinations(edges, k)))
        if len(seen) != want:
            acc.fail("seed-range", {"k": k}, "remove-not-uniform", "remove_edges(3-edge DAG, %d): over random_state 0..%d only %d of the %d edge subsets are removed" % (k, nseeds - 1, len(seen), want))
    seen = set()
    for s in range(nseeds):
        r = _g.call(U.add_edges, A.copy(), 1, random_state=s)
        acc.states += 1
        acc.transitions += 1
        f = judge("add", 4, G.pattern(A.tolist()), 1, r, "add_edges(%s, 1, random_state=%d)" % (A.tolist(), s))
        for sig, msg in f:
            acc.fail("seed-range", {"k": "add"}, sig, msg)
        if f or r[0] != "ok":
            return
        seen.add(G.pattern(np.asarray(r[1]).tolist()))
    if len(seen) < 6:         # node 3 can be joined to 0, 1, 2 in either direction: 6 different single additions
        acc.fail("seed-range", {"k": "add"}, "add-not-random", "add_edges(3-edge DAG + isolated node, 1): over random_state 0..%d only %d of the 6 possible additions occur" % (nseeds - 1, len(seen)))


def path_dags(p):
    """DAGs whose skeleton is the path 0-1-...-(p-1): every orientation for p <= 8, a fixed family beyond."""
    if p <= 8:
        masks = range(1 << (p - 1))
    else:
        masks = [0, (1 << (p - 1)) - 1, 0b1010101010101 & ((1 << (p - 1)) - 1), 0b0011001100110 & ((1 << (p - 1)) - 1), 1 << (p // 2)]
    for m in masks:
        A = np.zeros((p, p), dtype=int)
        for i in range(p - 1):
            if m >> i & 1:
                A[i + 1, i] = 1
            else:
                A[i, i + 1] = 1
        yield m, A


def run_paths(unit, acc):
    p = unit["p"]
    for m, A in path_dags(p):
        A0 = G.pattern(A.tolist())
        mx = p * (p - 1) // 2 - (p - 1)
        for k in (1, 2, mx):
            for s in (0, 1, 2, 3):
                r = _g.call(U.add_edges, A.copy(), k, random_state=s)
                acc.states += 1
                acc.traces += 1
                acc.transitions += 1
                acc.nontrivial += 1
                acc.extra["path_dag_calls"] += 1
                for sig, msg in judge("add", p, A0, k, r, "add_edges(path DAG %s on %d nodes, %d, random_state=%d)" % (bin(m), p, k, s)):
                    acc.fail("paths", {"p": p, "m": m, "k": k, "seed": s}, sig, msg)
        r = _g.call(U.remove_edges, A.copy(), p - 1, random_state=0)
        for sig, msg in judge("remove", p, A0, p - 1, r, "remove_edges(path DAG on %d nodes, %d)" % (p, p - 1)):
            acc.fail("paths", {"p": p, "m": m, "k": -1, "seed": 0}, sig, msg)


def run_unit(unit):
    acc = Acc()
    if unit["stage"] == "paths":
        run_paths(unit, acc)
        return acc.out()
    if unit["stage"] == "seed-range":
        run_seed_range(acc)
        return acc.out()
    if unit["stage"] == "grid":
        run_grid(unit, acc)
    else:
        run_tape(unit, acc)
    return acc.out()


def replay(kind, case):
    if kind == "grid":
        fails, r, _ = one_call(case["fn"], case["p"], case["code"], case["lab"], case["k"], case["seed"])
        if not fails and r[0] == "ok" and case["seed"] is not None:
            _, r2, _ = one_call(case["fn"], case["p"], case["code"], case["lab"], case["k"], case["seed"])
            if r2[0] != "ok" or not np.array_equal(r[1], r2[1]):
                fails.append(("not-deterministic", "differs between two identical calls"))
        return fails
    if kind == "paths":
        acc = Acc(keep_failures=50)
        run_paths({"p": case["p"]}, acc)
        return [(f["sig"], f["msg"]) for f in acc.failures if f["case"]["m"] == case["m"] and f["case"]["k"] == case["k"] and f["case"]["seed"] == case["seed"]]
    if kind == "seed-range":
        acc = Acc(keep_failures=20)
        run_seed_range(acc)
        return [(f["sig"], f["msg"]) for f in acc.failures]
    if kind == "tape":
        return one_call(case["fn"], case["p"], case["code"], "binint", case["k"], 0, answers=case["answers"])[0]
    acc = Acc()
    run_tape({"p": case["p"], "codes": [case["code"]], "bound": None}, acc)
    return [(f["sig"], f["msg"]) for f in acc.failures]


def describe(tier, seed):
    return {
        "technique": "exhaustive small-scope enumeration of (DAG, count, seed) on the real code; RNG outcomes by exhaustive enumeration of harness-owned answers (stateless DFS)",
        "rule": "add_edges and remove_edges on every labelled DAG p<=4 (binary int, weighted float and Fortran-ordered; thorough: + 5-node DAGs with <=4 edges) x every count from 0 to one past "
                "the feasible maximum x seeds {default, 0, 1, VERIF_SEED}, each seeded call twice; under the owned RNG every shuffle / choice answer for every DAG and "
                "count at p<=3 (complete), and all sequences with <=2 non-default answers for every %dth 4-node DAG with counts {1, max}; oracle: sub/supergraph with exactly "
                "k edges fewer/more, acyclic, no 2-cycle, no self-loop (own detector), ValueError iff infeasible, input untouched, every k-subset removable; every orientation of the path skeleton on 6..8 nodes (a family on 10, 12, 13) with counts {1, 2, max} x 4 seeds. non-trivial: 0 < k <= max" % (
                    8 if tier == "quick" else 2),
        "exhaustive": True,
        "bounds": {"p_exhaustive_real_rng": 4, "p_exhaustive_answers": 3, "p4_answer_deviation": 2},
        "assumptions": ["negative counts are outside the quantifier"],
    }
