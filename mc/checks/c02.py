"""C02 - ANM samples satisfy the structural assignments row by row (E1, recorded environment).

Noise and intervention callables are recording stand-ins returning known dyadic vectors; assignment
callables log the array they receive.  All arithmetic is exact in binary floating point, so the
row-by-row equations are checked with ==.
"""
import itertools

import numpy as np

import sempler
import sempler.functions as functions

from mc.run import Acc
from mc.refmodel import graphs as G
from mc.refmodel import gauss as Q
from mc.checks import _g
from mc import scmspace as SP
from mc.spaces import split_list

ID = "C02"
MANIFEST = {"engine": "E1"}
STATES = ((), ("do",), ("shift",), ("noise",), ("do", "shift"), ("do", "noise"), ("do", "shift", "noise"))
FAMILIES = ("F1", "F2", "F3", "F4", "F5")


def units(tier, seed):
    out = []
    for p in (1, 2, 3):
        dags = [c for c, _ in SP.dag_list(p)]
        for part in split_list(dags, 25 if p == 3 else 1):
            out.append({"p": p, "codes": part, "labs": ["bin", "cancel", "generic", "tiny"], "fams": list(FAMILIES), "ns": [0, 1, 3], "src": ["none", "null"]})
    dags4 = [c for c, _ in SP.dag_list(4)]
    if tier == "quick":
        for part in split_list(dags4[::25], 22):
            out.append({"p": 4, "codes": part, "labs": ["cancel"], "fams": ["F1", "F3", "F5"], "ns": [2], "src": ["none"]})
    else:
        for part in split_list(dags4, 272):
            out.append({"p": 4, "codes": part, "labs": ["cancel", "generic"], "fams": ["F1", "F2", "F3", "F4", "F5"], "ns": [2], "src": ["none"]})
    # wide graphs (10 nodes, parent sets mixing indices below and above 8): column order of the parents
    out.append({"wide": "targeted"})
    for part in split_list(_g.wide_sparse_codes("dag"), 8):
        out.append({"wide": "sparse", "codes": part})
    return out


class Recorder:
    """Deterministic stand-ins.  Plain closures (deepcopy leaves functions alone, so the log is shared
    with the copies the ANM constructor takes)."""

    def __init__(self, p):
        self.p = p
        self.draws = {}        # name -> list of vectors returned during the call (the checker's private copies)
        self.handed = {}       # name -> the array objects actually handed to the library (persistent, like pre-generated noise)
        self.inputs = {}       # node -> list of arrays received by its assignment
        self.bad_n = []

    def source(self, name, index):
        def draw(n):
            k = len(self.draws.setdefault(name, []))
            if not isinstance(n, (int, np.integer)):
                self.bad_n.append((name, n))
            n = int(n)
            v = np.array([(index * 64 + k * 8 + r + 1) / 8.0 - 20.0 for r in range(n)], dtype=float)
            self.draws[name].append(v)
            h = v.copy()
            self.handed.setdefault(name, []).append(h)
            return h
        draw.__name__ = name
        return draw

    def assignment(self, node, fam, npar):
        rec = self

        def f1(x):
            rec.inputs.setdefault(node, []).append(np.array(x, copy=True))
            return sum((10.0 ** k) * x[:, k] for k in range(x.shape[1])) if x.shape[1] else 0

        def f2(x):
            rec.inputs.setdefault(node, []).append(np.array(x, copy=True))
            return 2 * x                      # (n, 1) column

        def f3(x):
            rec.inputs.setdefault(node, []).append(np.array(x, copy=True))
            return np.abs(x[:, 0]) - 3 * x[:, -1] + np.maximum(x[:, -1], 0.5)

        def f4(x):
            rec.inputs.setdefault(node, []).append(np.array(x, copy=True))
            return 2.5                        # scalar
        def f5(x):
            # an assignment that uses its argument as scratch space: the parents' sampled values must not depend on what a callable does to
            # the array it was handed
            rec.inputs.setdefault(node, []).append(np.array(x, copy=True))
            out = sum((10.0 ** k) * x[:, k] for k in range(x.shape[1])) if x.shape[1] else 0
            if isinstance(x, np.ndarray) and x.flags.writeable:
                x[...] = -77.0
            return out
        if fam == "F5":
            return f5
        if fam == "F2" and npar == 1:
            return f2
        if fam == "F3":
            return f3
        if fam == "F4":
            return f4
        return f1


def ref_apply(fam, npar, cols):
    """The checker's own evaluation of the assignment on the final parent columns (list of 1-d arrays)."""
    n = len(cols[0]) if cols else 0
    if fam == "F2" and npar == 1:
        return 2 * cols[0]
    if fam == "F3":
        return np.abs(cols[0]) - 3 * cols[-1] + np.maximum(cols[-1], 0.5)
    if fam == "F4":
        return np.full(n, 2.5)
    out = np.zeros(n)
    for k, c in enumerate(cols):
        out = out + (10.0 ** k) * c
    return out


def check_case(p, code, lab, fam, src, states, n, ch=None, shared=None):
    """`shared`: dict in which the ANM object (and its recorder) of this (graph, labeling, family, source style) is kept, so that one
    model serves the whole sequence of intervention assignments and sample sizes - as in real use."""
    if ch is None:
        ch, _ = G.decode(p, code)
    A = _g.np_dag(p, ch, lab if lab != "bin" else "binint")
    pa = G.parents(p, ch)
    key = (p, tuple(ch), lab, fam, src)
    if shared is not None and key in shared:
        rec, anm_shared = shared[key]
        rec.draws, rec.handed, rec.inputs, rec.bad_n = {}, {}, {}, []
    else:
        rec, anm_shared = Recorder(p), None
    assignments, noises = [], []
    for j in range(p):
        ps = G.bits(pa[j])
        if not ps:
            assignments.append(None if src == "none" else functions.null)
        else:
            assignments.append(rec.assignment(j, fam, len(ps)))
        noises.append(rec.source("noise%d" % j, j))
    do, shift, nz = {}, {}, {}
    for j in range(p):
        st = STATES[states[j]]
        if "do" in st:
            do[j] = rec.source("do%d" % j, 8 + j)
        if "shift" in st:
            shift[j] = rec.source("shift%d" % j, 16 + j)
        if "noise" in st:
            nz[j] = rec.source("newnoise%d" % j, 24 + j)
    d = "ANM(A=%s, %s assignments).sample(%d, do=%s, shift=%s, noise=%s)" % (A.tolist(), fam, n, sorted(do), sorted(shift), sorted(nz))
    try:
        anm = anm_shared if anm_shared is not None else sempler.ANM(A, assignments, noises)
        if shared is not None and anm_shared is None:
            shared[key] = (rec, anm)
        X = anm.sample(n, do_interventions=do, shift_interventions=shift, noise_interventions=nz)
    except Exception as e:
        return [("raises", "%s raised %r" % (d, e))]
    X = np.asarray(X)
    if X.shape != (n, p):
        return [("shape", "%s returned shape %s, expected (%d, %d)" % (d, X.shape, n, p))]
    if n == 0:
        return []             # nothing to equate in an empty sample; whether callables are consulted for n = 0 is not demanded
    fails = []
    if rec.bad_n:
        fails.append(("noise-called-with-wrong-n", "%s: a noise callable was called with n=%r" % (d, rec.bad_n[0])))
    for name, hs in rec.handed.items():
        if any(not np.array_equal(h, v) for h, v in zip(hs, rec.draws[name])):
            fails.append(("callable-result-modified", "%s: the array returned by the callable %s was modified in place by the library (a callable that hands out views of "
                          "pre-generated noise would be corrupted for later draws)" % (d, name)))
    for name, vs in rec.draws.items():
        if any(len(v) != n for v in vs):
            fails.append(("noise-called-with-wrong-n", "%s: %s was asked for %s values" % (d, name, [len(v) for v in vs])))
    for j in range(p):
        col = X[:, j]
        st = STATES[states[j]]
        ps = G.bits(pa[j])
        if "do" in st:
            ok = any(np.array_equal(col, v) for v in rec.draws.get("do%d" % j, []))
            if not ok:
                fails.append(("do-column", "%s: column %d (do-target%s) is %s, not a draw of its do-distribution %s" % (
                    d, j, " also " + "+".join(s for s in st if s != "do") if len(st) > 1 else "", col.tolist(), [v.tolist() for v in rec.draws.get("do%d" % j, [])])))
            continue
        cols = [X[:, i] for i in ps]
        base = ref_apply(fam, len(ps), cols) if ps else np.zeros(n)
        if "shift" in st:
            cands = [a + b for a in rec.draws.get("noise%d" % j, []) for b in rec.draws.get("shift%d" % j, [])]
            what = "assignment(parents) + original noise + shift draw"
        elif "noise" in st:
            cands = list(rec.draws.get("newnoise%d" % j, []))
            what = "assignment(parents) + the replacing noise"
        else:
            cands = list(rec.draws.get("noise%d" % j, []))
            what = "assignment(parents) + original noise"
        if not any(np.array_equal(col, base + c) or np.array_equal(col - base, c) for c in cands):
            fails.append(("column-equation", "%s: column %d = %s is not %s (parents %s, f(parents) = %s, candidate noise draws %s)" % (
                d, j, col.tolist(), what, ps, np.asarray(base).tolist(), [c.tolist() for c in cands][:3])))
        if ps:
            got = rec.inputs.get(j, [])
            want = np.stack(cols, axis=1) if n or True else None
            if not got:
                fails.append(("assignment-not-called", "%s: the assignment of variable %d was never evaluated" % (d, j)))
            elif not any(g.shape == want.shape and np.array_equal(g, want) for g in got):
                fails.append(("assignment-input", "%s: the assignment of variable %d received %s, expected one column per parent %s in increasing index with their sampled values %s" % (
                    d, j, got[-1].tolist(), ps, want.tolist())))
    return fails[:4]


WIDE_STATES = [(), ((4, 1),), ((8, 2),), ((0, 3), (8, 1)), ((4, 2), (1, 1)), ((9, 4),)]      # (variable, state index) pairs


def wide_states(k):
    st = [0] * _g.WIDE_P
    for v, s_ in WIDE_STATES[k]:
        st[v] = s_
    return tuple(st)


def run_wide(unit, acc):
    p = _g.WIDE_P
    if unit["wide"] == "targeted":
        for k, ch in enumerate(_g.wide_targeted()):
            for lab in ("bin", "generic"):
                for fam in ("F1", "F3"):
                    for sk in range(len(WIDE_STATES)):
                        f = check_case(p, None, lab, fam, "none", wide_states(sk), 2, ch=ch)
                        acc.states += 1
                        acc.traces += 1
                        acc.transitions += 1
                        acc.nontrivial += 1
                        acc.extra["wide_targeted_calls"] += 1
                        acc.outcome(["wide", k, fam, sk])
                        for sig, msg in f:
                            acc.fail("wide", {"k": k, "lab": lab, "fam": fam, "sk": sk}, sig, msg)
    else:
        for code in unit["codes"]:
            f = check_case(p, code, "generic", "F1", "none", (0,) * p, 1)
            acc.states += 1
            acc.traces += 1
            acc.transitions += 1
            acc.extra["wide_sparse_calls"] += 1
            if code:
                acc.nontrivial += 1
            for sig, msg in f:
                acc.fail("case", {"p": p, "code": code, "lab": "generic", "fam": "F1", "src": "none", "states": [0] * p, "n": 1}, sig, msg)


def run_unit(unit):
    acc = Acc()
    if "wide" in unit:
        run_wide(unit, acc)
        return acc.out()
    p = unit["p"]
    for code in unit["codes"]:
        for lab in unit["labs"]:
            for fam in unit["fams"]:
                for src in unit["src"]:
                    shared = {}
                    for states in itertools.product(range(7), repeat=p):
                        for n in unit["ns"]:
                            f = check_case(p, code, lab, fam, src, states, n, shared=shared)
                            acc.states += 1
                            acc.traces += 1
                            acc.transitions += 1
                            acc.extra["calls_p%d" % p] += 1
                            if n and G.nedges(p, code) and any(states):
                                acc.nontrivial += 1
                            acc.outcome([code, fam, states, n])
                            for sig, msg in f:
                                acc.fail("case", {"p": p, "code": code, "lab": lab, "fam": fam, "src": src, "states": list(states), "n": n}, sig, msg)
        if len(acc.samples) < 1 and G.nedges(p, code) >= 2:
            ch, und = G.decode(p, code)
            acc.sample({"dag": G.to_matrix(p, ch, und), "families": unit["fams"], "intervention_states_per_variable": [list(s) for s in STATES], "n": unit["ns"]})
    return acc.out()


def replay(kind, case):
    if kind == "wide":
        return check_case(_g.WIDE_P, None, case["lab"], case["fam"], "none", wide_states(case["sk"]), 2, ch=_g.wide_targeted()[case["k"]])
    return check_case(case["p"], case["code"], case["lab"], case["fam"], case["src"], tuple(case["states"]), case["n"])


def describe(tier, seed):
    return {
        "technique": "exhaustive small-scope enumeration of (graph, assignment family, intervention assignment, n) on the real ANM with a recorded "
                     "environment (deterministic noise / intervention stand-ins), rows re-derived with the checker's own parent sets",
        "rule": "every labelled DAG p<=3 x {0/1 int, cancelling, generic} weights x 5 assignment families (positional-linear sum 10^k x_k, the same sum from a callable that afterwards overwrites the array it was handed, (n,1)-column-returning, "
                "piecewise-linear non-symmetric, scalar-returning) x sources given as None / functions.null x all 7^p assignments of {none, do, shift, noise, do+shift, "
                "do+noise, do+shift+noise} x n in {0,1,3}; p=4: every %s DAG with cancelling weights, 3 families, 7^4 assignments, n=2; wide graphs: 80 targeted 10-node colliders whose parents mix node "
                "indices below and above 8 x 2 labelings x 2 families x 6 intervention patterns, and every 10-node DAG with <=2 edges. Oracle: shape (n,p); a do-target "
                "equals a draw of its do stand-in; otherwise column == f(final parent columns in increasing index) + original (+shift) / replacing noise draw, exactly; the "
                "array each assignment received is the final parent columns. non-trivial: n>0, at least one edge and one intervention" % ("25th" if tier == "quick" else ""),
        "exhaustive": True,
        "bounds": {"p_exhaustive": 3, "p_max": 4},
        "assumptions": ["shift+noise on the same variable without do is outside the quantifier", "all values dyadic: equality is exact and insensitive to re-association"],
    }
