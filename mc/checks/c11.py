"""C11 - random DAG generators return valid DAGs with a valid ordering (E2 branching).

The harness owns numpy's RNG: Bernoulli cells of the edge mask are answered just below / just above
the threshold k/(p-1) the specification implies, weight cells from {0, 1/4, 1-2^-53} of the range,
permutation cells exhaustively.  Per execution: shape, zero diagonal, acyclicity, weight range,
ordering validity, W identical with and without return_ordering.  Across executions: one own mask
cell per unordered pair (=> independent edges with probability exactly k/(p-1)), one own weight
cell per edge, p! distinct orderings covering every (node, position).
"""
import itertools
import math

import numpy as np

import sempler.generators as gen

from mc.run import Acc
from mc.env import tape
from mc.refmodel import graphs as G

ID = "C11"
MANIFEST = {"engine": "E2"}
RANGES = ((1, 1), (-2, -1), (-1, 1), (0.5, 2))
DEGENERATE = ((1 / 3, 1 / 3), (0.45, 0.45), (-1.7, -1.7), (0.01, 0.01))
DELTA = 2.0 ** -30
_TIER = ["quick"]


def prepare(tier, seed):
    _TIER[0] = tier


def units(tier, seed):
    out = []
    for p in (2, 3, 4) + ((5,) if tier == "thorough" else ()):
        for k in sorted({0, 1, 1.5 if p > 2 else 0.5, p - 1, 0.25}):
            if k > p - 1:
                continue
            for r in RANGES:
                if p == 5 and r not in ((-1, 1), (1, 1)):
                    continue
                out.append({"fn": "avg", "p": p, "k": k, "range": list(r), "seed_arg": 0 if p % 2 else None})
    for p in (0, 1, 2, 3, 4) + ((5,) if tier == "thorough" else ()):
        for r in RANGES:
            out.append({"fn": "full", "p": p, "range": list(r), "seed_arg": None if p % 2 else 0})
    # degenerate ranges w_min == w_max = c for constants that are not exactly representable: every weight must be exactly c
    for r in DEGENERATE:
        out.append({"fn": "full", "p": 4, "range": list(r), "seed_arg": 0})
        out.append({"fn": "avg", "p": 4, "k": 2, "range": list(r), "seed_arg": None})
    return out


def policy(cfg, order):
    prob = cfg["k"] / (cfg["p"] - 1) if cfg["fn"] == "avg" else None

    def pol(kind, lo, hi):
        if kind == "uniform" and (lo, hi) == (0.0, 1.0) and prob is not None:
            menu = []
            if prob > 0:
                menu.append(prob - DELTA if prob >= 2 * DELTA else prob / 2)
            if prob < 1:
                menu.append(prob + DELTA)
            if order == "H":
                menu.reverse()
            return tuple(menu)
        return (0.0, 0.25, tape.TOP)
    return pol


def call(cfg, answers, order, with_ordering):
    with tape.Tape(answers=answers, menu_policy=policy(cfg, order)) as tp:
        try:
            if cfg["fn"] == "avg":
                r = gen.dag_avg_deg(cfg["p"], cfg["k"], cfg["range"][0], cfg["range"][1], return_ordering=with_ordering, random_state=cfg["seed_arg"])
            else:
                r = gen.dag_full(cfg["p"], cfg["range"][0], cfg["range"][1], return_ordering=with_ordering, random_state=cfg["seed_arg"])
            res = ("ok", r)
        except tape.TapeError:
            raise
        except Exception as e:
            res = ("exc", type(e).__name__, repr(e)[:300])
    return res, tp


def desc(cfg):
    if cfg["fn"] == "avg":
        return "dag_avg_deg(p=%d, k=%s, w_min=%s, w_max=%s, random_state=%r)" % (cfg["p"], cfg["k"], cfg["range"][0], cfg["range"][1], cfg["seed_arg"])
    return "dag_full(p=%d, w_min=%s, w_max=%s, random_state=%r)" % (cfg["p"], cfg["range"][0], cfg["range"][1], cfg["seed_arg"])


def judge(cfg, answers, order, structural=True):
    """One execution (two calls: with and without return_ordering). -> (fails, info, points)"""
    p = cfg["p"]
    lo, hi = cfg["range"]
    d = desc(cfg) + " [answers %s, baseline %s]" % (list(answers), order)
    r1, tp = call(cfg, answers, order, True)
    full_answers = [pt["choice"] for pt in tp.points]
    r2, tp2 = call(cfg, full_answers, order, False)
    fails = []
    if r1[0] != "ok" or r2[0] != "ok":
        return [("raises", "%s raised %s" % (d, (r1 if r1[0] != "ok" else r2)[2]))], None, tp.points
    if tp.unmodelled or tp2.unmodelled:
        return [], {"undecided": True}, tp.points
    try:
        W, ordering = r1[1]
        W = np.asarray(W)
        W2 = np.asarray(r2[1])
    except Exception:
        return [("malformed", "%s returned %r" % (d, r1[1]))], None, tp.points
    if W.shape != (p, p) or W2.shape != (p, p):
        return [("shape", "%s returned shape %s" % (d, W.shape))], None, tp.points
    if [pt["menu"] for pt in tp2.points] != [pt["menu"] for pt in tp.points] or not np.array_equal(W, W2):
        fails.append(("ordering-flag-changes-graph", "%s: W differs with and without return_ordering (same RNG answers)" % d))
    Wl = W.tolist()
    if any(Wl[i][i] != 0 for i in range(p)):
        fails.append(("diagonal", "%s: non-zero diagonal in %s" % (d, Wl)))
    if G.pattern_has_cycle(Wl):
        fails.append(("cyclic", "%s: returned graph %s has a directed cycle" % (d, Wl)))
    nz = [(i, j, Wl[i][j]) for i in range(p) for j in range(p) if Wl[i][j] != 0]
    if any(not (lo <= v <= hi) for _, _, v in nz):
        fails.append(("weight-out-of-range", "%s: weights %s outside [%s, %s]" % (d, [v for _, _, v in nz], lo, hi)))
    wvals = [c["value"] for c in tp.trace if c["kind"] == "uniform" and (c["lo"], c["hi"]) == (float(lo), float(hi))]
    if structural and wvals and (float(lo), float(hi)) != (0.0, 1.0) and any(all(abs(v - w) > 1e-12 for w in wvals) for _, _, v in nz):
        fails.append(("weight-not-a-draw", "%s: some weight in %s is not w_min+(w_max-w_min)*u of a uniform cell drawn for that range (%s)" % (d, [v for _, _, v in nz], wvals[:6])))
    try:
        o = [int(x) for x in ordering]
    except Exception:
        o = None
    if o is None or sorted(o) != list(range(p)):
        fails.append(("ordering-not-permutation", "%s: ordering %r is not a permutation of the nodes" % (d, ordering)))
    elif not G.is_topological_order(Wl, o):
        fails.append(("ordering-not-topological", "%s: ordering %s is not a topological order of %s" % (d, o, Wl)))
    if cfg["fn"] == "full" and not (lo <= 0 <= hi):
        if any(Wl[i][j] == 0 and Wl[j][i] == 0 for i in range(p) for j in range(i + 1, p)):
            fails.append(("not-complete", "%s: %s is not complete although 0 is outside the weight range" % (d, Wl)))
    edges = frozenset((min(i, j), max(i, j)) for i, j, _ in nz)
    info = {"edges": edges, "order": tuple(o) if o else None, "W": W, "trace": tp.trace, "points": tp.points}
    return fails, info, tp.points


def explore_cfg(cfg, acc, tier):
    p = cfg["p"]
    fails = []
    npairs = p * (p - 1) // 2
    prob = cfg["k"] / (p - 1) if cfg["fn"] == "avg" else None
    crashed = lambda: sum(1 for f in fails if f[2] == "raises") >= 3        # the generator raises: no point in walking the whole answer tree

    structural = [True]

    def runner(order, sink):
        def run(prefix):
            f, info, points = judge(cfg, prefix, order, structural[0])
            acc.states += 1
            acc.traces += 2
            acc.transitions += len(points)
            if any(prefix):
                acc.nontrivial += 1
            if info and info.get("undecided"):
                acc.undecided += 1
            for sig, msg in f:
                fails.append(("exec", {"cfg": cfg, "answers": list(prefix), "order": order}, sig, msg))
            if info and "edges" in info:
                acc.outcome([cfg["fn"], p, sorted(info["edges"]), info["order"]])
                sink(prefix, info)
            return points
        return run

    is_mask = lambda pt: pt["kind"] == "uniform" and pt["menu"] == 2 and prob is not None and 0 < prob < 1
    is_perm = lambda pt: pt["kind"] == "permutation"
    is_weight = lambda pt: pt["kind"] == "uniform" and pt["menu"] == 3

    # ---- is the way the implementation consumes randomness the one the structural oracles below assume?
    # (uniform cells thresholded at k/(p-1) for the mask, uniform cells of the weight range, permutation cells).  Any other
    # legitimate structure (random keys + argsort, binomial edge count + subset, insertion by integers, ...) is explored to
    # deviation 1 with the per-execution oracle only; its distributional sentences are left to the seed-range stage.
    _, info0, pts0 = judge(cfg, (), "L", False)
    kinds = set(pt["kind"] for pt in pts0)
    undec0 = bool(info0 and info0.get("undecided"))
    nmask = sum(1 for pt in pts0 if pt["kind"] == "uniform" and pt["menu"] == 2)
    recognised = (not undec0) and kinds <= {"uniform", "permutation"} and (p < 2 or "permutation" in kinds) and (
        prob is None or not (0 < prob < 1) or nmask >= npairs)
    if not recognised:
        structural[0] = False
        acc.extra["configs_structure_not_recognised"] += 1
        acc.undecided += 1
        tape.explore(runner("L", lambda prefix, info: None), bound=1, max_exec=3000, stop=crashed)
        return fails
    acc.extra["configs_structure_recognised"] += 1

    # ---- phase A0: which mask cells matter?  single flips from the all-absent (H) and all-present (L) baselines
    relevant = None
    if prob is not None and 0 < prob < 1:
        rel = {}
        for order in ("H", "L"):
            runs = {}
            tape.explore(runner(order, lambda prefix, info: runs.__setitem__(tuple(prefix), info)), bound=1, branch=is_mask, stop=crashed)
            base = runs.get(())
            if base is None:
                return fails
            owner = {}
            for prefix, info in runs.items():
                if not prefix:
                    continue
                addr = info["points"][len(prefix) - 1]["addr"]
                diff = info["edges"] ^ base["edges"]
                if len(diff) > 1:
                    fails.append(("aggregate-cfg", {"cfg": cfg}, "mask-cell-controls-several-edges", "%s: flipping one Bernoulli cell changes the edges %s" % (desc(cfg), sorted(diff))))
                elif len(diff) == 1:
                    owner[addr] = next(iter(diff))
            rel[order] = owner
            want_base = 0 if order == "H" else npairs
            if len(base["edges"]) != want_base:
                fails.append(("aggregate-cfg", {"cfg": cfg}, "edge-probability", "%s: with every Bernoulli cell just %s k/(p-1) the graph has %d edge(s), expected %d - the inclusion threshold is not k/(p-1)" % (
                    desc(cfg), "above" if order == "H" else "below", len(base["edges"]), want_base)))
        if set(rel["H"]) != set(rel["L"]) or len(rel["H"]) != npairs or len(set(rel["H"].values())) != npairs:
            fails.append(("aggregate-cfg", {"cfg": cfg}, "edge-probability", "%s: %d/%d Bernoulli cells control an edge when flipped across k/(p-1) (all-absent/all-present baselines), expected one own cell for each of the %d pairs" % (
                desc(cfg), len(rel["H"]), len(rel["L"]), npairs)))
            return fails
        relevant = set(rel["L"])

    # ---- phase A1: complete product over the relevant mask cells x all permutation answers (baseline L)
    table = {}

    def sinkA(prefix, info):
        lows = frozenset(pt["addr"] for pt in info["points"] if is_mask(pt) and pt["addr"] in (relevant or ()) and pt["choice"] == 0)
        perm = tuple(pt["choice"] for pt in info["points"] if is_perm(pt))
        table[(perm, lows)] = info

    cap = 400000
    if crashed():
        return fails
    n, capped = tape.explore(runner("L", sinkA), bound=None, max_exec=cap, stop=crashed,
                             branch=lambda pt: is_perm(pt) or (is_mask(pt) and pt["addr"] in (relevant or ())))
    acc.extra["phaseA_executions"] += n
    if capped:
        acc.extra["phaseA_capped"] += 1
    perms = sorted(set(k[0] for k in table))
    if not capped:
        if len(perms) != math.factorial(p):
            fails.append(("aggregate-cfg", {"cfg": cfg}, "permutation-answers", "%s: %d distinct permutation answers met, expected %d!" % (desc(cfg), len(perms), p)))
        orders = set()
        positions = set()
        for perm in perms:
            full = table.get((perm, frozenset(relevant or ())))
            if full is None or full["order"] is None:
                continue
            orders.add(full["order"])
            positions.update((node, pos) for pos, node in enumerate(full["order"]))
            if relevant:
                # the cells that own a pair were recognised under the default permutation answer. An implementation may let the permutation
                # decide which of its Bernoulli cells are looked at (e.g. a p x p table masked by position[i] < position[j]): then, with all
                # recognised cells above the threshold, edges remain under this answer - not the presupposed structure, so undecided here
                # (the per-execution rules and the seed-range stage still apply)
                none_low = table.get((perm, frozenset()))
                if none_low is not None and none_low["edges"]:
                    acc.extra["configs_structure_not_recognised"] += 1
                    acc.undecided += 1
                    continue
                # sigma_perm: own pair of every cell, from the executions with exactly one cell low
                sigma = {}
                for c in relevant:
                    one = table.get((perm, frozenset([c])))
                    if one is not None and len(one["edges"]) == 1:
                        sigma[c] = next(iter(one["edges"]))
                if len(set(sigma.values())) != npairs:
                    fails.append(("aggregate-cfg", {"cfg": cfg}, "edges-not-independent", "%s: under permutation answer %s the single-cell executions do not give one own pair per cell" % (desc(cfg), perm)))
                    continue
                for (pm, lows), info in table.items():
                    if pm == perm and info["edges"] != frozenset(sigma[c] for c in lows):
                        fails.append(("aggregate-cfg", {"cfg": cfg}, "edges-not-independent", "%s: with cells %s below the threshold the edges are %s, expected exactly the own pairs %s" % (
                            desc(cfg), sorted(lows), sorted(info["edges"]), sorted(sigma[c] for c in lows))))
                        break
        if p >= 1 and perms and len(orders) != math.factorial(p):
            fails.append(("aggregate-cfg", {"cfg": cfg}, "ordering-not-random", "%s: the %d! permutation answers give only %d distinct orderings" % (desc(cfg), p, len(orders))))
        if p >= 1 and perms and len(positions) != p * p:
            fails.append(("aggregate-cfg", {"cfg": cfg}, "ordering-not-random", "%s: only %d of the %d (node, position) pairs occur among the orderings" % (desc(cfg), len(positions), p * p)))

    # ---- phase B: weight cells, single deviations from the all-present baseline (two permutations)
    # (only when the implementation draws its weights through uniform(w_min, w_max) cells; weights produced in another legitimate way -
    # e.g. w_min + (w_max - w_min) * rng.random() - are judged on their range only)
    has_weight_cells = any(pt["kind"] == "uniform" and pt["menu"] == 3 for pt in pts0)
    if has_weight_cells and cfg["range"][0] != cfg["range"][1] and (prob is None or prob > 0):
        runs = {}
        tape.explore(runner("L", lambda prefix, info: runs.__setitem__(tuple(prefix), info)), bound=1, branch=is_weight, stop=crashed)
        base = runs.get(())
        if base is not None:
            influence = {}
            for prefix, info in runs.items():
                if not prefix:
                    continue
                addr = info["points"][len(prefix) - 1]["addr"]
                changed = [(i, j) for i in range(p) for j in range(p) if info["W"][i, j] != base["W"][i, j]]
                influence.setdefault(addr, set()).update(changed)
            multi = [a for a, ch in influence.items() if len(ch) > 1]
            owned = set()
            for ch in influence.values():
                owned |= ch
            edges_dir = [(i, j) for i in range(p) for j in range(p) if base["W"][i, j] != 0]
            if multi:
                fails.append(("aggregate-cfg", {"cfg": cfg}, "weights-share-a-draw", "%s: one uniform weight cell changes the entries %s" % (desc(cfg), sorted(influence[multi[0]]))))
            elif set(edges_dir) - owned:
                fails.append(("aggregate-cfg", {"cfg": cfg}, "weight-without-own-draw", "%s: entries %s do not respond to any weight cell" % (desc(cfg), sorted(set(edges_dir) - owned))))
    return fails


def real_call(cfg, seed, with_ordering):
    try:
        if cfg["fn"] == "avg":
            r = gen.dag_avg_deg(cfg["p"], cfg["k"], cfg["range"][0], cfg["range"][1], return_ordering=with_ordering, random_state=seed)
        else:
            r = gen.dag_full(cfg["p"], cfg["range"][0], cfg["range"][1], return_ordering=with_ordering, random_state=seed)
        return ("ok", r)
    except Exception as e:
        return ("exc", type(e).__name__, repr(e)[:300])


def judge_real(cfg, seed):
    """One seed of the real numpy generator: the structure-independent part of the oracle."""
    p = cfg["p"]
    lo, hi = cfg["range"]
    d = desc(cfg).replace("random_state=%r" % cfg["seed_arg"], "random_state=%d" % seed) + " [real numpy]"
    r1, r2 = real_call(cfg, seed, True), real_call(cfg, seed, False)
    if r1[0] != "ok" or r2[0] != "ok":
        return [("raises", "%s raised %s" % (d, (r1 if r1[0] != "ok" else r2)[2]))], None
    try:
        W, ordering = r1[1]
        W, W2 = np.asarray(W), np.asarray(r2[1])
        o = [int(x) for x in ordering]
    except Exception:
        return [("malformed", "%s returned %r" % (d, r1[1]))], None
    fails = []
    if W.shape != (p, p) or W2.shape != (p, p):
        return [("shape", "%s returned shape %s" % (d, W.shape))], None
    Wl = W.tolist()
    if not np.array_equal(W, W2):
        fails.append(("ordering-flag-changes-graph", "%s: W differs with and without return_ordering for the same seed" % d))
    if any(Wl[i][i] != 0 for i in range(p)):
        fails.append(("diagonal", "%s: non-zero diagonal" % d))
    if G.pattern_has_cycle(Wl):
        fails.append(("cyclic", "%s: returned graph %s has a directed cycle" % (d, Wl)))
    if any(v != 0 and not (lo <= v <= hi) for row in Wl for v in row):
        fails.append(("weight-out-of-range", "%s: weights outside [%s, %s] in %s" % (d, lo, hi, Wl)))
    if sorted(o) != list(range(p)):
        fails.append(("ordering-not-permutation", "%s: ordering %r is not a permutation of the nodes" % (d, ordering)))
    elif not G.is_topological_order(Wl, o):
        fails.append(("ordering-not-topological", "%s: ordering %s is not a topological order of %s" % (d, o, Wl)))
    edges = frozenset((min(i, j), max(i, j)) for i in range(p) for j in range(p) if Wl[i][j] != 0)
    if cfg["fn"] == "full" and not (lo <= 0 <= hi) and len(edges) != p * (p - 1) // 2:
        fails.append(("not-complete", "%s: %s is not complete although 0 is outside the weight range" % (d, Wl)))
    return fails, (edges, tuple(o) if sorted(o) == list(range(p)) else None)


def seed_range(cfg, acc, nseeds):
    """Every seed in [0, nseeds) with the real generator: exhaustive over a seed range, independent of how the implementation
    consumes its randomness.  Coverage statements whose failure probability under the specified law is < 1e-15."""
    p = cfg["p"]
    fails = []
    orders, positions, present, absent = set(), set(), set(), set()
    pairs = [(i, j) for i in range(p) for j in range(i + 1, p)]
    for s in range(nseeds):
        f, info = judge_real(cfg, s)
        acc.states += 1
        acc.traces += 2
        acc.transitions += 2
        acc.extra["seed_range_executions"] += 1
        for sig, msg in f:
            fails.append(("real", {"cfg": cfg, "seed": s}, sig, msg))
        if info is None:
            continue
        edges, o = info
        if o is not None:
            orders.add(o)
            positions.update((node, pos) for pos, node in enumerate(o))
        for pr in pairs:
            (present if pr in edges else absent).add(pr)
    if [f for f in fails if f[2] in ("raises", "malformed", "shape")]:
        return fails[:6]
    d = desc(cfg) + " over random_state 0..%d [real numpy]" % (nseeds - 1)
    if nseeds >= 200 and 1 <= p <= 5 and len(positions) != p * p:
        fails.append(("real-agg", {"cfg": cfg, "nseeds": nseeds}, "ordering-not-random", "%s: only %d of the %d (node, position) pairs occur among the orderings" % (d, len(positions), p * p)))
    if nseeds >= 200 and 1 <= p <= 3 and len(orders) != math.factorial(p):
        fails.append(("real-agg", {"cfg": cfg, "nseeds": nseeds}, "ordering-not-random", "%s: only %d of the %d! orderings occur" % (d, len(orders), p)))
    if cfg["fn"] == "avg":
        prob = cfg["k"] / (p - 1)
        zero_possible = cfg["range"][0] <= 0 <= cfg["range"][1] and cfg["range"][0] != cfg["range"][1]
        if prob <= 0 and present:
            fails.append(("real-agg", {"cfg": cfg, "nseeds": nseeds}, "edge-probability", "%s: edges occur although k = 0" % d))
        if prob >= 1 and absent and not zero_possible:
            fails.append(("real-agg", {"cfg": cfg, "nseeds": nseeds}, "edge-probability", "%s: pairs %s are sometimes non-adjacent although k = p-1" % (d, sorted(absent)[:3])))
        if nseeds >= 200 and 1.0 / 3 <= prob <= 2.0 / 3 and (len(present) != len(pairs) or len(absent) != len(pairs)):
            fails.append(("real-agg", {"cfg": cfg, "nseeds": nseeds}, "edge-probability", "%s: with edge probability %.3f some pair is %s in every draw" % (
                d, prob, "absent" if len(present) != len(pairs) else "present")))
    return fails[:6]


def run_unit(unit):
    acc = Acc()
    cfg = unit
    b0 = tape.BUDGET_EVENTS[0]
    fails = explore_cfg(cfg, acc, _TIER[0])
    fails = list(fails) + seed_range(cfg, acc, 200 if _TIER[0] == "quick" else 1000)
    acc.undecided += tape.BUDGET_EVENTS[0] - b0          # executions abandoned at the draw budget (unbounded consumption of randomness)
    seen = set()
    for kind, case, sig, msg in fails:
        if (kind, sig) in seen and kind != "exec":
            continue
        seen.add((kind, sig))
        acc.fail(kind, case, sig, msg)
    acc.extra["configs_" + cfg["fn"]] += 1
    acc.sample({"config": {k: cfg[k] for k in cfg}, "executions": acc.states})
    return acc.out()


def replay(kind, case):
    if kind == "real":
        return judge_real(case["cfg"], case["seed"])[0]
    if kind == "real-agg":
        return [(sig, msg) for k, c, sig, msg in seed_range(case["cfg"], Acc(), case["nseeds"]) if k == "real-agg"]
    if kind == "exec":
        f, _, _ = judge(case["cfg"], case["answers"], case["order"])
        return f
    fails = explore_cfg(case["cfg"], Acc(), _TIER[0])
    return [(sig, msg) for _, _, sig, msg in fails]


def describe(tier, seed):
    return {
        "technique": "exhaustive enumeration of RNG answer sequences (harness-owned numpy.random; stateless DFS) on the real generators",
        "rule": "(structural oracles apply when the implementation thresholds uniform cells at k/(p-1) and uses permutation cells - counted as configs_structure_recognised; "
                "any other way of consuming randomness is explored to deviation 1 with the per-execution oracle only) + every seed in [0,200) (quick) / [0,1000) (thorough) of the "
                "real generator per configuration: per-draw validity, W identical with/without ordering, every (node, position) pair and (p<=3) all p! orderings occur, "
                "k=0 gives no edge, k=p-1 every pair, 1/3<=k/(p-1)<=2/3 every pair both present and absent. dag_avg_deg for p in 2..4 (5 thorough) x k in {0, 0.25, 1, 1.5, p-1} x 4 weight ranges, dag_full for p in 0..4 (5) x 4 ranges; each execution calls the "
                "generator with and without return_ordering on the same answers. Phase A0: every single flip of a Bernoulli cell across k/(p-1) from the all-absent and "
                "all-present baselines (identifies the own cell of every pair); phase A1: complete product of the p(p-1)/2 relevant cells x all p! permutation answers; "
                "phase B: every single deviation of a weight cell. Irrelevant Bernoulli cells and weight cells are covered to deviation 1 only. non-trivial: "
                "execution with a non-default answer",
        "exhaustive": False,
        "bounds": {"p_max": 5 if tier == "thorough" else 4, "mask_x_permutation": "complete product", "weight_cells": "deviation 1",
                   "irrelevant_mask_cells": "deviation 1"},
        "assumptions": ["numpy's uniform cells are i.i.d. U[0,1): the distributional sentences (independent edges with probability k/(p-1), random ordering) are decided as "
                        "structural facts about which cell controls what, no statistics are computed",
                        "ties (u exactly equal to k/(p-1)) and weights exactly 0 inside a range containing 0 have probability zero and are never presented"],
    }
