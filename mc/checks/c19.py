"""C19 - semi-synthetic samples factorise according to the given graph (E1 + E2 + E3, stand-in backend).

The R forest is replaced by a deterministic stand-in behind the rpy2 interface (stubs/rpy2): weight
1/2 on the two training rows nearest to the query in parent space, every fit and query logged.  The
Python side (sempler.semi and the bundled drf wrapper) is the code under check.
"""
import itertools

import numpy as np

import rpy2
from rpy2.robjects.packages import weights_for

import sempler
import sempler.semi as semi

from mc.run import Acc
from mc.env import tape
from mc.refmodel import graphs as G
from mc.checks import _g
from mc.hist import bfs as H
from mc.spaces import split_list

ID = "C19"
MANIFEST = {"engine": "E1+E2+E3"}
_TIER = ["quick"]
_SEED = [0]


def prepare(tier, seed):
    _TIER[0] = tier
    _SEED[0] = seed


def make_data(p, sizes):
    data = []
    for k, N in enumerate(sizes):
        a = np.zeros((N, p))
        for i in range(p):
            for r in range(N):
                a[r, i] = ((r * 7 + i * 3 + k * 5) % N) * 1.5 + 0.01 * r + 100 * i + 1000 * k
        data.append(a)
    return data


N_FORMS = {1: [None, 1, 3, [2]], 2: [None, 1, 2, [2, 3], [1, 1]]}
ENVS = ([5], [6, 8])


def units(tier, seed):
    out = []
    for p in (1, 2, 3):
        codes = G.dag_codes(p)
        for part in split_list(codes, 25 if p == 3 else 1):
            out.append({"stage": "graphs", "p": p, "codes": part})
    dags4 = G.dag_codes(4)
    dags4 = dags4[::12] if tier == "quick" else dags4[::3]
    for part in split_list(dags4, 16 if tier == "quick" else 128):
        out.append({"stage": "graphs", "p": 4, "codes": part, "light": True})
    out += [{"stage": "wide", "k": k, "n": 8} for k in range(8)]
    out.append({"stage": "invalid"})
    out.append({"stage": "history", "depth": 2 if tier == "quick" else 3})
    out.append({"stage": "realrng"})
    return out


def graph_matrix(p, code, lab):
    if isinstance(code, str) and code.startswith("wide:"):
        ch = _g.wide_targeted()[int(code[5:])]
    else:
        ch, _ = G.decode(p, code)
    return _g.np_dag(p, ch, lab), ch


def expected_rows(net_sizes, n):
    if n is None:
        return list(net_sizes)
    if isinstance(n, int):
        return [n] * len(net_sizes)
    return list(n)


def build(p, code, lab, sizes):
    A, ch = graph_matrix(p, code, lab)
    data = make_data(p, sizes)
    rpy2.reset()
    passed = [d.copy() for d in data]
    net = semi.DRFNet(A, passed)
    for a in passed:            # hostile caller: the arrays handed to the constructor are overwritten after fitting
        a[...] = -777.0
    fits = [e for e in rpy2.LOG if e[0] == "fit"]
    # other networks are fitted afterwards in the same process (same graph on other data; another graph): instances must not share state
    decoy_data = [d + 50000.0 for d in data]
    semi.DRFNet(A, decoy_data)
    if p >= 2:
        B = np.zeros((p, p), dtype=int)
        B[p - 1, 0] = 1
        semi.DRFNet(B, [d[::-1].copy() + 90000.0 for d in data])
    return A, ch, data, net, fits


def judge_fits(p, ch, data, fits, d):
    """one fit per (non-source i, environment k) on data[k][:, sorted(pa i)] -> data[k][:, i]; returns (fails, {(i,k): fit_id})"""
    pa = G.parents(p, ch)
    fails = []
    mapping = {}
    unused = list(fits)
    for i in range(p):
        ps = G.bits(pa[i])
        if not ps:
            continue
        for k in range(len(data)):
            X, Y = data[k][:, ps], data[k][:, [i]]
            hit = next((f for f in unused if f[2].shape == X.shape and np.array_equal(f[2], X) and np.array_equal(np.asarray(f[3]).reshape(Y.shape), Y)), None)
            if hit is None:
                fails.append(("fit-missing-or-wrong", "%s: no forest was fitted for variable %d in environment %d on its parents %s (sorted) -> the variable" % (d, i, k, ps)))
            else:
                mapping[(i, k)] = hit[1]
                unused.remove(hit)
    if unused and not fails:
        fails.append(("unexpected-fit", "%s: %d forest(s) fitted that belong to no (non-source variable, environment)" % (d, len(unused))))
    return fails, mapping


def judge_sample(p, ch, data, n, result, mapping, log, tp, d):
    pa = G.parents(p, ch)
    sizes = [len(x) for x in data]
    want_rows = expected_rows(sizes, n)
    fails = []
    if not isinstance(result, list) or len(result) != len(data):
        return [("structure", "%s returned %r, expected one array per environment" % (d, type(result)))]
    for k, S in enumerate(result):
        S = np.asarray(S)
        if S.shape != (want_rows[k], p):
            fails.append(("shape", "%s: environment %d has shape %s, expected (%d, %d)" % (d, k, S.shape, want_rows[k], p)))
            return fails
        for i in range(p):
            pool = set(data[k][:, i].tolist())
            bad = [v for v in S[:, i].tolist() if v not in pool]
            if bad:
                fails.append(("value-not-observed", "%s: environment %d column %d contains %s, never observed for that variable in that environment" % (d, k, i, bad[:3])))
    if fails:
        return fails
    preds = [e for e in log if e[0] == "predict"]
    inv = {v: key for key, v in mapping.items()}
    seen = set()
    for e in preds:
        key = inv.get(e[1])
        if key is None:
            fails.append(("query-unknown-forest", "%s: a prediction was requested from a forest that belongs to no (variable, environment)" % d))
            continue
        i, k = key
        if key in seen:
            fails.append(("queried-twice", "%s: the forest of variable %d, environment %d was queried more than once" % (d, i, k)))
        seen.add(key)
        ps = G.bits(pa[i])
        S = np.asarray(result[k])
        want = S[:, ps]
        if e[2].shape != want.shape or not np.array_equal(e[2], want):
            fails.append(("query-not-synthetic-parents", "%s: variable %d (environment %d) was predicted from %s, expected the synthetic values of its parents %s in increasing order %s" % (
                d, i, k, e[2].tolist(), ps, want.tolist())))
            continue
        # the output column must be the stand-in's answers: a training response with positive weight for that query row
        Xtr, Ytr = data[k][:, ps], data[k][:, i]
        Wt = weights_for(Xtr, want)
        for r in range(len(want)):
            ok = [Ytr[t] for t in range(len(Ytr)) if Wt[r, t] > 0]
            if S[r, i] not in ok:
                fails.append(("not-the-forest-answer", "%s: environment %d row %d of variable %d is %r, the fitted model offers %s for parents %s" % (d, k, r, i, S[r, i], ok, want[r].tolist())))
                break
    for i in range(p):
        if G.bits(pa[i]):
            for k in range(len(data)):
                if (i, k) in mapping and (i, k) not in seen and want_rows[k] > 0:
                    fails.append(("forest-not-used", "%s: variable %d in environment %d was not generated by its fitted model" % (d, i, k)))
    return fails[:4]


def execute(net, n, seed_arg, answers):
    start = len(rpy2.LOG)
    with tape.Tape(answers=answers, wide_int_menu=(0.0, 0.5, 1.0)) as tp:
        try:
            r = ("ok", net.sample(n, random_state=seed_arg))
        except tape.TapeError:
            raise
        except Exception as e:
            r = ("exc", type(e).__name__, repr(e)[:300])
    return r, tp, rpy2.LOG[start:]


def explore_config(p, code, lab, sizes, n, seed_arg, acc, tier):
    A, ch, data, net, fits = build(p, code, lab, sizes)
    d0 = "DRFNet(graph=%s, %d environment(s) of %s rows).sample(%r, random_state=%r)" % (A.tolist(), len(sizes), sizes, n, seed_arg)
    case0 = {"p": p, "code": code, "lab": lab, "sizes": sizes, "n": n, "seed_arg": seed_arg}
    fails = []
    ffails, mapping = judge_fits(p, ch, data, fits, d0)
    for sig, msg in ffails:
        fails.append(("config", case0, sig, msg))
    pa = G.parents(p, ch)
    sources = [i for i in range(p) if not pa[i]]
    runs = {}

    def run(prefix):
        r, tp, log = execute(net, n, seed_arg, prefix)
        acc.states += 1
        acc.traces += 1
        acc.transitions += len(tp.points)
        if any(prefix):
            acc.nontrivial += 1
        if tp.unmodelled:
            acc.undecided += 1
            return tp.points
        d = d0 + " [RNG answers %s]" % list(prefix)
        if r[0] != "ok":
            fails.append(("exec", dict(case0, answers=list(prefix)), "raises", "%s raised %s" % (d, r[2])))
            return tp.points
        f = judge_sample(p, ch, data, n, r[1], mapping, log, tp, d)
        # judged for single-environment data only: coupling of the same variable across environments is not part of the property
        reused = [c for c in tp.trace if c.get("new") is False] if len(sizes) == 1 else []
        if reused:
            f = f + [("rng-cells-reused", "%s: %d of the %d random draws of this one call re-use an RNG address already consumed in the same call (e.g. %s) - the draws "
                      "for different variables / environments are perfectly coupled instead of independent" % (d, len(reused), len(tp.trace), reused[0]["addr"]))]
        for sig, msg in f:
            fails.append(("exec", dict(case0, answers=list(prefix)), sig, msg))
        if not f:
            runs[tuple(prefix)] = ([np.asarray(S).copy() for S in r[1]], [pt["addr"] for pt in tp.points], len(tp.trace), len(tp.points))
            acc.outcome([code, [np.asarray(S).tolist() for S in r[1]]])
        return tp.points

    # deviation 1 first (needed for the influence analysis), then the complete product when it is small
    tape.explore(run, bound=1, max_exec=20000)
    mode = "deviation<=1"
    cap = 150 if tier == "quick" else 600
    nexec, capped = tape.explore(run, bound=None, max_exec=cap)
    if not capped:
        mode = "complete"
    elif tier == "thorough":
        n2, capped2 = tape.explore(run, bound=2, max_exec=1500)
        mode = "deviation<=2" if not capped2 else "deviation<=1"
    acc.extra["configs_" + mode] += 1
    # source independence: the RNG cells that influence two different source columns of one environment are disjoint
    base = runs.get(())
    if base is not None and len(sources) >= 2 and not fails:
        infl = {}
        for prefix, (S, addrs, ntrace, npts) in runs.items():
            if not prefix or sum(1 for a in prefix if a) != 1:
                continue
            cell = addrs[len(prefix) - 1]
            for k in range(len(S)):
                if S[k].shape != base[0][k].shape:
                    continue
                for i in sources:
                    if not np.array_equal(S[k][:, i], base[0][k][:, i]):
                        infl.setdefault((k, i), set()).add(cell)
        for k in range(len(sizes)):
            for a, b in itertools.combinations(sources, 2):
                common = infl.get((k, a), set()) & infl.get((k, b), set())
                if common:
                    fails.append(("config", case0, "sources-share-draws:%s" % ("seeded" if seed_arg is not None else "unseeded"),
                                  "%s: in environment %d the source variables %d and %d are driven by the same RNG cell(s) %s - they are not resampled independently" % (d0, k, a, b, sorted(common)[:2])))
                    break
        # every bootstrap row of a source must respond to some cell (it is resampled, not copied)
        rows = expected_rows(sizes, n)
        for k in range(len(sizes)):
            for i in sources:
                if rows[k] > 0 and sizes[k] > 1 and not infl.get((k, i)):
                    fails.append(("config", case0, "source-not-resampled", "%s: source variable %d in environment %d does not respond to any RNG cell" % (d0, i, k)))
    # seeded reproducibility inside the owned RNG: same seed => every draw re-uses an address already answered
    return fails


def run_graphs(unit, acc):
    p = unit["p"]
    tier = _TIER[0]
    light = unit.get("light")
    for code in unit["codes"]:
        ch, und = G.decode(p, code)
        if any(und) or not G.is_acyclic(p, ch):
            continue
        combos = []
        for sizes in ENVS:
            forms = N_FORMS[len(sizes)]
            for n in (forms if not light else forms[1:3]):
                for seed_arg in ((None, 0) if not light else (1,)):
                    combos.append((sizes, n, seed_arg))
        if tier == "quick" and p >= 3 and not light:
            # rotate: every DAG gets 6 of the 18 (environments, n, seed) combinations, all 18 occur across the DAGs
            rot = code % 3
            combos = [c for j, c in enumerate(combos) if j % 3 == rot]
        for idx, (sizes, n, seed_arg) in enumerate(combos):
            lab = ("binint", "generic", "cancel", "tiny")[idx % 4]
            fails = explore_config(p, code, lab, list(sizes), n, seed_arg, acc, tier)
            acc.extra["graph_configs_p%d" % p] += 1
            seen = set()
            for kind, case, sig, msg in fails:
                if sig in seen:
                    continue
                seen.add(sig)
                acc.fail(kind, case, sig, msg)
        if len(acc.samples) < 1 and G.nedges(p, code) >= 2:
            acc.sample({"graph": G.to_matrix(p, ch, und), "environments": [list(s) for s in ENVS], "n": N_FORMS[2], "random_state": [None, 0]})


# ------------------------------------------------------------------------------------------ invalid arguments

def invalid_cases():
    g = np.array([[0, 1], [0, 0]])
    data = make_data(2, [5, 6])
    cases = [
        ("graph-list", "TypeError", lambda: semi.DRFNet([[0, 1], [0, 0]], data)),
        ("graph-1d", "ValueError", lambda: semi.DRFNet(np.array([0, 1]), data)),
        ("graph-3d", "ValueError", lambda: semi.DRFNet(np.zeros((2, 2, 2)), data)),
        ("graph-cyclic", "ValueError", lambda: semi.DRFNet(np.array([[0, 1], [1, 0]]), data)),
        ("graph-negative-cycle", "ValueError", lambda: semi.DRFNet(np.array([[0, -1.0], [-1.0, 0]]), data)),
        ("graph-negative-3cycle", "ValueError", lambda: semi.DRFNet(np.array([[0, -1.0, 0], [0, 0, -1.0], [-1.0, 0, 0]]), make_data(3, [5]))),
        ("graph-selfloop", "ValueError", lambda: semi.DRFNet(np.array([[-1.0, 0], [0, 0]]), data)),
        ("data-tuple", "TypeError", lambda: semi.DRFNet(g, tuple(data))),
        ("data-ndarray", "TypeError", lambda: semi.DRFNet(g, data[0])),
        ("data-element-list", "TypeError", lambda: semi.DRFNet(g, [data[0].tolist()])),
        ("data-element-1d", "ValueError", lambda: semi.DRFNet(g, [np.arange(4.0)])),
        ("data-wrong-width", "ValueError", lambda: semi.DRFNet(g, [np.zeros((4, 3))])),
        ("data-second-wrong-width", "ValueError", lambda: semi.DRFNet(g, [data[0], np.zeros((4, 3))])),
    ]
    net = lambda: semi.DRFNet(g, [d.copy() for d in data])
    cases += [
        ("n-float", "TypeError", lambda: net().sample(2.0)),
        ("n-str", "TypeError", lambda: net().sample("3")),
        ("n-tuple", "TypeError", lambda: net().sample((2, 2))),
        ("n-zero", "ValueError", lambda: net().sample(0)),
        ("n-negative", "ValueError", lambda: net().sample(-1)),
        ("n-list-float", "TypeError", lambda: net().sample([2, 2.0])),
        ("n-list-zero", "ValueError", lambda: net().sample([2, 0])),
        ("n-list-negative", "ValueError", lambda: net().sample([-1, 2])),
        ("n-list-too-short", "ValueError", lambda: net().sample([2])),
        ("n-list-too-long", "ValueError", lambda: net().sample([2, 2, 2])),
        ("n-list-empty", "ValueError", lambda: net().sample([])),
        # wrong in two documented ways at once: either documented exception is accepted
        ("n-list-too-long-with-float", "TypeError|ValueError", lambda: net().sample([2, 2, 2.0])),
        ("n-list-too-short-with-str", "TypeError|ValueError", lambda: net().sample(["2"])),
    ]
    valid = [
        ("valid-none", lambda: net().sample()),
        ("valid-int", lambda: net().sample(2, random_state=3)),
        ("valid-list", lambda: net().sample([1, 2])),
        ("valid-weighted-graph", lambda: semi.DRFNet(np.array([[0, -2.5], [0, 0]]), data).sample(1)),
        ("valid-seed-beyond-32-bits", lambda: net().sample(2, random_state=2 ** 32 + 5)),
        ("valid-seed-beyond-32-bits-edgeless", lambda: semi.DRFNet(np.zeros((2, 2)), data).sample(2, random_state=2 ** 63 - 1)),
        # everything default_rng accepts was accepted by the pinned code
        ("valid-seed-generator", lambda: net().sample(2, random_state=np.random.default_rng(5))),
        ("valid-seed-seedsequence", lambda: net().sample(2, random_state=np.random.SeedSequence(5))),
        ("valid-seed-sequence", lambda: net().sample(2, random_state=[2 ** 40, 5])),
        ("valid-seed-numpy-int", lambda: net().sample(2, random_state=np.int64(2 ** 40))),
    ]
    return cases, valid


def run_invalid(acc):
    cases, valid = invalid_cases()
    for name, exc, f in cases:
        r = _g.call(f)
        acc.states += 1
        acc.traces += 1
        acc.transitions += 1
        acc.nontrivial += 1
        acc.extra["invalid_cases"] += 1
        acc.outcome([name, r[0]])
        if r[0] == "ok":
            acc.fail("invalid", {"name": name}, "accepted:" + name, "invalid argument (%s) was accepted, documented %s expected" % (name, exc))
        elif r[1] not in exc.split("|"):
            acc.fail("invalid", {"name": name}, "wrong-exception:" + name, "invalid argument (%s) raised %s, documented %s expected" % (name, r[2], exc))
    for name, f in valid:
        r = _g.call(f)
        acc.states += 1
        acc.transitions += 1
        if r[0] != "ok":
            acc.fail("invalid", {"name": name}, "rejected:" + name, "valid call (%s) raised %s" % (name, r[2]))


# ------------------------------------------------------------------------------------------ histories (real RNG)

def hist_ctx():
    np.random.seed(31337)
    g = np.array([[0, 0, 1, 0], [0, 0, 1, 1], [0, 0, 0, 1], [0, 0, 0, 0]])
    data = make_data(4, [7, 8])
    return semi.DRFNet(g, data)


PERTURB = [
    ("np.random.seed(99)", lambda net: np.random.seed(99)),
    ("np.random.normal(3)", lambda net: np.random.normal(size=3)),
    ("net.sample(2) unseeded", lambda net: net.sample(2)),
    ("default_rng(5).uniform()", lambda net: np.random.default_rng(5).uniform()),
    ("net.sample(1, random_state=7)", lambda net: net.sample(1, random_state=7)),
    ("np.random.choice(5)", lambda net: np.random.choice(5)),
]


def observed(seed):
    # seeds beyond 32 bits included: every seed the library's own generator accepts must work and reproduce
    return [(n, s) for n in (3, [2, 4]) for s in sorted({0, 1, int(seed) % 2 ** 32, 2 ** 40 + 7})]


_REF = {}


def hist_reference(seed):
    if seed not in _REF:
        tab = {}
        for k, (n, s) in enumerate(observed(seed)):
            net = hist_ctx()
            try:
                tab[k] = H.digest_value(net.sample(n, random_state=s))
            except Exception as e:                 # reported by eval_history as a failure of that seeded call
                tab[k] = ("raises", repr(e))
        _REF[seed] = tab
    return _REF[seed]


def eval_history(hist, seed, upto=None):
    ref = hist_reference(seed)
    net = hist_ctx()
    for i in hist:
        PERTURB[i][1](net)
    fails = []
    st = np.random.get_state()
    for k, (n, s) in enumerate(observed(seed)):
        if upto is not None and k > upto:
            break
        try:
            d = H.digest_value(net.sample(n, random_state=s))
        except Exception as e:
            fails.append((k, "raises", "sample(%r, random_state=%d) raised %r" % (n, s, e)))
            continue
        if isinstance(ref[k], tuple):
            fails.append((k, "raises", "sample(%r, random_state=%d) raised %s in the initial state" % (n, s, ref[k][1])))
        elif d != ref[k]:
            fails.append((k, "not-reproducible", "DRFNet.sample(%r, random_state=%d) differs from its result in the initial state after history %s" % (n, s, [PERTURB[i][0] for i in hist])))
        np.random.set_state(st)
    return fails


def run_history_stage(unit, acc):
    seed = _SEED[0]
    for d in range(unit["depth"] + 1):
        for hist in itertools.product(range(len(PERTURB)), repeat=d):
            fails = eval_history(hist, seed)
            acc.states += 1
            acc.traces += 1
            acc.transitions += len(hist) + len(observed(seed))
            acc.extra["histories_depth_%d" % d] += 1
            if hist:
                acc.nontrivial += 1
            acc.outcome(["hist", H.rng_state_digest()])
            for k, sig, msg in fails:
                acc.fail("hist", {"history": list(hist), "upto": k, "seed": seed}, sig, msg)


def run_realrng(acc):
    """real numpy: the bootstrap index vectors of two source variables are not identical."""
    g = np.array([[0, 0, 1], [0, 0, 1], [0, 0, 0]])
    data = make_data(3, [8, 7])
    net = semi.DRFNet(g, data)
    for s in list(range(10)) + [None]:
        r = _g.call(net.sample, 6, random_state=s)
        acc.states += 1
        acc.traces += 1
        acc.transitions += 1
        acc.extra["real_rng_samples"] += 1
        acc.nontrivial += 1
        if r[0] != "ok":
            acc.fail("realrng", {"seed": s}, "raises", "sample(6, random_state=%r) raised %s" % (s, r[2]))
            continue
        for k, S in enumerate(r[1]):
            idx = []
            for i in (0, 1):
                col = data[k][:, i].tolist()
                idx.append([col.index(v) if v in col else -1 for v in np.asarray(S)[:, i].tolist()])
            if idx[0] == idx[1]:
                acc.fail("realrng", {"seed": s}, "sources-share-draws:real-rng", "sample(6, random_state=%r): environment %d resamples both source variables with the identical row indices %s" % (s, k, idx[0]))
        if s is not None:
            r2 = _g.call(net.sample, 6, random_state=s)
            if r2[0] == "ok" and H.digest_value(r[1]) != H.digest_value(r2[1]):
                acc.fail("realrng", {"seed": s}, "not-reproducible", "two consecutive sample(6, random_state=%d) calls differ" % s)


def run_wide(unit, acc):
    """10-node colliders whose parents mix node indices below and above 8 (set iteration order of the parents)."""
    fam = _g.wide_targeted()
    for k in range(unit["k"], len(fam), unit["n"]):
        for lab, seed_arg in (("binint", 0), ("generic", None)):
            fails = explore_config(_g.WIDE_P, "wide:%d" % k, lab, [6], 2, seed_arg, acc, "quick")
            acc.extra["wide_configs"] += 1
            seen = set()
            for kind, case, sig, msg in fails:
                if sig not in seen:
                    seen.add(sig)
                    acc.fail(kind, case, sig, msg)


def run_unit(unit):
    acc = Acc(keep_failures=2)
    st = unit["stage"]
    if st == "graphs":
        run_graphs(unit, acc)
    elif st == "wide":
        run_wide(unit, acc)
    elif st == "invalid":
        run_invalid(acc)
    elif st == "history":
        run_history_stage(unit, acc)
    else:
        run_realrng(acc)
    return acc.out()


def replay(kind, case):
    if kind == "invalid":
        acc = Acc(keep_failures=50)
        run_invalid(acc)
        return [(f["sig"], f["msg"]) for f in acc.failures if f["case"]["name"] == case["name"]]
    if kind == "hist":
        fails = eval_history(tuple(case["history"]), case["seed"], upto=case["upto"])
        return [(s, m) for k, s, m in fails if k == case["upto"]] or [(s, m) for k, s, m in fails]
    if kind == "realrng":
        acc = Acc(keep_failures=50)
        run_realrng(acc)
        return [(f["sig"], f["msg"]) for f in acc.failures if f["case"]["seed"] == case["seed"]]
    fails = explore_config(case["p"], case["code"], case["lab"], case["sizes"], case["n"], case["seed_arg"], Acc(), _TIER[0])
    if kind == "exec":
        return [(s, m) for k, c, s, m in fails if c.get("answers") == case["answers"]] or [(s, m) for k, c, s, m in fails if k == "exec"]
    return [(s, m) for k, c, s, m in fails if k == "config"]


def describe(tier, seed):
    return {
        "technique": "exhaustive small-scope enumeration of graphs / data shapes / n forms on the real Python side over a logging stand-in backend, RNG outcomes by "
                     "exhaustive enumeration of harness-owned answers (stateless DFS), seeded reproducibility by explicit exploration of call histories with the real RNG",
        "rule": "every labelled DAG p<=3 (binary and weighted; every %s 4-node DAG) x {1 environment of 5 rows, 2 environments of 6 and 8 rows} with globally unique values x "
                "n in {None, int, per-environment list} x random_state in {None, 0}; under the owned RNG every answer of every bootstrap / forest choice cell (every single deviation always; the complete "
                "product when <= %d executions; thorough: else every sequence with <= %d non-default answers where that fits 1500 executions). Oracle: one (n_k x p) array per environment; every value observed for that variable "
                "in that environment; one fit per (non-source variable, environment) on the sorted parents; exactly one query per fitted model, equal to the synthetic parent "
                "columns; output = a positive-weight answer of that model; RNG cells driving two source columns of an environment are disjoint (seeded and unseeded); no RNG "
                "address is consumed twice within one call (single-environment data); 80 targeted 10-node colliders whose parents mix node indices below and above 8. 26 invalid "
                "argument cases -> documented TypeError / ValueError; histories of <= %d perturbing operations: sample(n, random_state=s) bit-identical to the initial state; real "
                "numpy seeds 0..9: sources not resampled with identical indices. non-trivial: execution with a non-default answer" % (
                    "12th" if tier == "quick" else "3rd", 150 if tier == "quick" else 600, 1 if tier == "quick" else 2, 2 if tier == "quick" else 3),
        "exhaustive": False,
        "bounds": {"p_exhaustive": 3, "history_depth": 2 if tier == "quick" else 3, "deviation_when_capped": 1 if tier == "quick" else 2},
        "assumptions": ["the R package drf is replaced by a deterministic stand-in behind the rpy2 interface, as the property stipulates; only the Python side is checked",
                        "coupling of the same variable across environments is not judged (the property speaks of source variables 'of one another')"],
    }
