"""C05 - Gaussian conditioning and marginalisation are exact (E1).

Every distribution of a small integer positive-definite alphabet x every ordered pair of disjoint
index sequences (Y, X) x conditioning values, in list / ndarray / scalar argument styles, against
an exact Fraction oracle (precision-matrix form); plus the metamorphic relations and the error
contract.
"""
import itertools

import numpy as np

import sempler

from mc.run import Acc
from mc.refmodel import gauss as Q
from mc.checks import _g
from mc import spaces
from mc.spaces import split_list

ID = "C05"
MANIFEST = {"engine": "E1"}
XVALS = (0, 1, -0.5)
INT_MEANS = {1: [[0], [3]], 2: [[0, 0], [1, -2]], 3: [[0, 0, 0], [1, -2, 3]], 4: [[0, 0, 0, 0], [1, -2, 3, -1]]}


def units(tier, seed):
    out = []
    for p in (1, 2, 3):
        Ls = list(spaces.lower_factors(p))
        for part in split_list(Ls, 16 if p == 3 else 1):
            out.append({"stage": "dist", "p": p, "Ls": part})
    out.append({"stage": "errors"})
    if tier == "thorough":
        Ls = list(spaces.lower_factors(4, diag_choices=[(1, 2, 1, 2), (2, 1, 1, 1)]))
        for part in split_list(Ls, 128):
            out.append({"stage": "dist", "p": 4, "Ls": part})
    else:
        Ls = list(spaces.lower_factors(4, diag_choices=[(1, 2, 1, 2)]))[::27]
        for part in split_list(Ls, 9):
            out.append({"stage": "dist", "p": 4, "Ls": part})
    return out


def styled(seq, style):
    if style == "list":
        return list(seq)
    if style == "array":
        return np.array(seq, dtype=int) if all(isinstance(v, int) for v in seq) else np.array(seq, dtype=float)
    # scalar style: sequences of length 1 become bare scalars
    return seq[0] if len(seq) == 1 else list(seq)


def make(mu, S, dtype):
    if dtype == "int":
        return sempler.NormalDistribution(np.array(mu, dtype=np.int64), np.array(S, dtype=np.int64))
    return sempler.NormalDistribution(np.array(mu, dtype=float), np.array(S, dtype=float))


def check_conditional(dist, mu, S, Y, X, x, style):
    """One conditional call against the oracle. Returns list of (sig, msg)."""
    xa = styled(list(x), style)
    if style == "array":
        xa = np.array(list(x), dtype=float)
    Ya, Xa = styled(Y, style), styled(X, style)
    r = _g.call(dist.conditional, Ya, Xa, xa)
    desc = "conditional(Y=%s, X=%s, x=%s) [%s] on mean=%s cov=%s" % (Y, X, list(x), style, Q.fl(mu), Q.fl(S))
    if r[0] != "ok":
        return [("conditional:raises", "%s raised %s" % (desc, r[2]))]
    if style == "array" and (np.asarray(xa).tolist() != [float(v) for v in x] or np.asarray(Ya).tolist() != list(Y) or np.asarray(Xa).tolist() != list(X)):
        return [("conditional:argument-modified", "%s changed the arrays it was given (x is now %s): a second use of the same array conditions on other values" % (desc, np.asarray(xa).tolist()))]
    em, ec = Q.conditional(mu, S, Y, X, x)
    d = r[1]
    out = []
    if np.shape(d.mean) != (len(Y),) or np.shape(d.covariance) != (len(Y), len(Y)):
        return [("conditional:shape", "%s has mean shape %s, covariance shape %s" % (desc, np.shape(d.mean), np.shape(d.covariance)))]
    if not Q.close_vec(d.mean, em):
        out.append(("conditional:mean", "%s: mean %s, exact %s" % (desc, np.asarray(d.mean).tolist(), Q.fl(em))))
    if not Q.close_mat(np.asarray(d.covariance).tolist(), ec):
        out.append(("conditional:covariance", "%s: covariance %s, exact %s" % (desc, np.asarray(d.covariance).tolist(), Q.fl(ec))))
    return out


def check_marginal(dist, mu, S, X, style):
    r = _g.call(dist.marginal, styled(X, style))
    desc = "marginal(%s) [%s] on mean=%s cov=%s" % (X, style, Q.fl(mu), Q.fl(S))
    if r[0] != "ok":
        return [("marginal:raises", "%s raised %s" % (desc, r[2]))]
    em, ec = Q.marginal(mu, S, X)
    d = r[1]
    if np.shape(d.mean) != (len(X),) or not Q.close_vec(d.mean, em) or not Q.close_mat(np.asarray(d.covariance).tolist(), ec):
        return [("marginal:wrong", "%s = (%s, %s), exact (%s, %s)" % (desc, np.asarray(d.mean).tolist(), np.asarray(d.covariance).tolist(), Q.fl(em), Q.fl(ec)))]
    return []


def same(d1, d2):
    return (np.shape(d1.mean) == np.shape(d2.mean) and np.allclose(d1.mean, d2.mean, rtol=0, atol=1e-9 * max(1, np.max(np.abs(d1.mean), initial=0)))
            and np.allclose(d1.covariance, d2.covariance, rtol=0, atol=1e-9 * max(1, np.max(np.abs(d1.covariance), initial=0))))


def check_meta(dist, Y, X, x):
    """Metamorphic relations for one (Y, X, x)."""
    out = []
    n = 0
    if not X:
        a, b = _g.call(dist.conditional, Y, [], []), _g.call(dist.marginal, Y)
        n += 2
        if a[0] != "ok" or b[0] != "ok" or not same(a[1], b[1]):
            out.append(("meta:condition-on-nothing", "conditional(%s, [], []) differs from marginal(%s)" % (Y, Y)))
        # marginal compositionality: marginal(Y).marginal(B) == marginal(Y[B]) for every ordered sub-selection B
        for kb in range(1, len(Y) + 1):
            for B in itertools.permutations(range(len(Y)), kb):
                a = _g.call(lambda: dist.marginal(Y).marginal(list(B)))
                b = _g.call(dist.marginal, [Y[t] for t in B])
                n += 2
                if a[0] != "ok" or b[0] != "ok" or not same(a[1], b[1]):
                    out.append(("meta:marginal-composition", "marginal(%s).marginal(%s) differs from marginal(%s)" % (Y, list(B), [Y[t] for t in B])))
    elif len(X) >= 2:
        joint = _g.call(dist.conditional, Y, X, list(x))
        n += 1
        for k in range(1, len(X)):
            X1, X2, x1, x2 = X[:k], X[k:], list(x[:k]), list(x[k:])
            def two():
                d1 = dist.conditional(Y + X2, X1, x1)
                return d1.conditional(list(range(len(Y))), list(range(len(Y), len(Y) + len(X2))), x2)
            t = _g.call(two)
            n += 2
            if joint[0] != "ok" or t[0] != "ok" or not same(joint[1], t[1]):
                out.append(("meta:two-step-conditioning", "conditioning %s on %s=%s then %s=%s differs from conditioning jointly" % (Y, X1, x1, X2, x2)))
    return out, n


def check_dist(p, L, mu, dtype, scale=1.0):
    S = spaces.sigma_of(L)
    if scale != 1.0:          # covariance * scale, mean * sqrt-free power of two: still exact, well conditioned at any scale
        S = [[v * scale for v in row] for row in S]
        mu = [m * 4.0 for m in mu]
    dist = make(mu, S, dtype)
    muF, SF = Q.vec(mu), Q.mat(S)
    fails, n = [], 0
    for (Y, X) in spaces.ordered_disjoint_pairs(p):
        styles = ("list", "array") + (("scalar",) if len(Y) == 1 or len(X) == 1 else ())
        for x in itertools.product(XVALS, repeat=len(X)):
            for style in styles:
                f = check_conditional(dist, muF, SF, Y, X, x, style)
                n += 1
                for sig, msg in f:
                    fails.append((sig, msg, {"Y": Y, "X": X, "x": list(x), "style": style}))
            if x == tuple([XVALS[1]] * len(X)):
                f, k = check_meta(dist, Y, X, x)
                n += k
                for sig, msg in f:
                    fails.append((sig, msg, {"Y": Y, "X": X, "x": list(x), "style": "meta"}))
        if not X:
            for style in styles:
                f = check_marginal(dist, muF, SF, Y, style)
                n += 1
                for sig, msg in f:
                    fails.append((sig, msg, {"Y": Y, "X": [], "x": [], "style": "marginal-" + style}))
        if len(fails) > 8:
            break
    return fails, n


def error_cases():
    cases = []
    for p in (1, 2, 3):
        seqs = [list(s) for k in range(0, p + 1) for s in itertools.permutations(range(p), k)]
        for Y in seqs:
            if not Y:
                continue
            for X in seqs:
                if set(Y) & set(X):
                    cases.append({"kind": "overlap", "p": p, "Y": Y, "X": X, "x": [0.5] * len(X)})
                else:
                    for lx in range(0, 4):
                        if lx != len(X):
                            cases.append({"kind": "size", "p": p, "Y": Y, "X": X, "x": [0.5] * lx})
    for a in range(1, 4):
        for b in range(1, 4):
            if a != b:
                cases.append({"kind": "ctor", "a": a, "b": b})
    return cases


def check_error(case):
    if case["kind"] == "ctor":
        r = _g.call(sempler.NormalDistribution, np.zeros(case["a"]), np.eye(case["b"]))
        if r[0] == "ok" or r[1] != "ValueError":
            return [("constructor:size-mismatch-accepted", "NormalDistribution(mean of length %d, %dx%d covariance) -> %r, ValueError expected" % (case["a"], case["b"], case["b"], r[1:]))]
        return []
    p = case["p"]
    L = next(itertools.islice(spaces.lower_factors(p), 5 % (3 ** (p * (p - 1) // 2)), None))
    dist = make(spaces.MEANS[p][1], spaces.sigma_of(L), "float")
    out = []
    for style in ("list", "array"):
        r = _g.call(dist.conditional, styled(case["Y"], style), styled(case["X"], style), styled(case["x"], style) if case["x"] else [])
        if r[0] == "ok" or r[1] != "ValueError":
            sig = "conditional:overlap-accepted" if case["kind"] == "overlap" else "conditional:size-mismatch-accepted"
            out.append((sig, "conditional(Y=%s, X=%s, x=%s) [%s] -> %s, ValueError expected" % (case["Y"], case["X"], case["x"], style, r[1] if r[0] != "ok" else "a distribution")))
    return out


def run_unit(unit):
    acc = Acc()
    if unit["stage"] == "errors":
        for case in error_cases():
            f = check_error(case)
            acc.states += 1
            acc.transitions += 1 if case["kind"] == "ctor" else 2
            acc.traces += 1
            acc.nontrivial += 1
            acc.extra["error_cases_" + case["kind"]] += 1
            acc.outcome(["err", case["kind"], bool(f)])
            for sig, msg in f:
                acc.fail("error", case, sig, msg)
        return acc.out()
    p = unit["p"]
    for L in unit["Ls"]:
        for dtype, means in (("float", spaces.MEANS[p]), ("int", INT_MEANS[p])):
            for mu in means:
                fails, n = check_dist(p, L, mu, dtype)
                if dtype == "float" and mu is means[-1] and p >= 3 and (sum(map(sum, L)) % 4 == 0):
                    # scale-invariance spot checks: variances of order 2^-12 and 2^10
                    for sc in (2.0 ** -12, 2.0 ** 10):
                        f2, n2 = check_dist(p, L, mu, dtype, scale=sc)
                        n += n2
                        acc.extra["scaled_distributions"] += 1
                        fails += [(sig, msg, dict(sub, scale=sc)) for sig, msg, sub in f2]
                acc.states += 1
                acc.transitions += n
                acc.traces += 1
                acc.extra["distributions_p%d" % p] += 1
                if p >= 2 and any(L[i][j] for i in range(p) for j in range(i)):
                    acc.nontrivial += 1
                acc.outcome([spaces.sigma_of(L), mu])
                if len(acc.samples) < 1 and p >= 3 and L[2][0] and L[1][0]:
                    acc.sample({"mean": mu, "covariance": spaces.sigma_of(L), "dtype": dtype, "calls_compared": n})
                for sig, msg, sub in fails:
                    acc.fail("dist", {"p": p, "L": L, "mu": mu, "dtype": dtype, "sub": sub}, sig, msg)
    return acc.out()


def replay(kind, case):
    if kind == "error":
        return check_error(case)
    p, L, mu, dtype, sub = case["p"], case["L"], case["mu"], case["dtype"], case["sub"]
    # the whole call sequence on one distribution object is re-executed (a result may depend on earlier calls on the same object)
    fails, _ = check_dist(p, L, mu, dtype, scale=sub.get("scale") or 1.0)
    exact = [(s_, m_) for s_, m_, sb in fails if {k: v for k, v in sb.items() if k != "scale"} == {k: v for k, v in sub.items() if k != "scale"}]
    return exact or [(s_, m_) for s_, m_, _ in fails]


def describe(tier, seed):
    return {
        "technique": "exhaustive small-scope input enumeration on the real code vs exact rational (Fraction) Gaussian conditioning",
        "rule": "every Sigma = L L^T with lower-triangular L (off-diagonals in {-1,0,1}, diagonal in {1,2}) for p<=3 (216 at p=3) and a p=4 "
                "family (diag fixed; quick: every 27th, thorough: 1458), 2 float and 2 int mean vectors, plus the same covariances scaled by 2^-12 and 2^10 for a quarter of them; every ordered pair of disjoint index "
                "sequences (Y non-empty, X possibly empty, every permutation) x every x in {0,1,-0.5}^|X|, in list / ndarray / scalar argument "
                "styles; marginal for every ordered index sequence; metamorphic relations (condition-on-nothing, marginal composition, two-step "
                "conditioning for every split); error contract exhaustively for p<=3 (every overlapping (Y,X), every |x| != |X| up to 3, every "
                "mean/covariance size mismatch up to 3). non-trivial: p>=2 with a non-zero off-diagonal factor",
        "exhaustive": True,
        "bounds": {"p_exhaustive": 3, "p_max": 4, "x_alphabet": list(XVALS)},
        "assumptions": ["covariances outside the integer L L^T alphabet are not explored; tolerance 1e-9 relative to max(1, |exact|)"],
    }
