"""C01 - LGANM population law equals the intervened structural equations (E1 + E2).

Every DAG pattern (p <= 3 quick, + p = 4 thorough) x weight labelings x float / int parameter arrays x
every assignment of a subset of {do, noise, shift} to every variable (8^p) in tuple / float-scalar /
int-scalar styles, against the exact Fraction solution of the intervened equations; degenerate
None / {} arguments; (low, high) parameter ranges under the harness-owned RNG (E2).
"""
import itertools

import numpy as np

import sempler

from mc.run import Acc
from mc.refmodel import graphs as G
from mc.refmodel import gauss as Q
from mc.checks import _g
from mc import scmspace as SP
from mc.spaces import split_list

ID = "C01"
MANIFEST = {"engine": "E1+E2"}
CONFIGS = (("generic", "float"), ("cancel", "floatzero"), ("int", "int"), ("neg", "intW"))
STYLES = ("tuple", "float", "int", "inttuple", "tuple-rev")


def units(tier, seed):
    out = []
    for p in (1, 2, 3):
        dags = SP.dag_list(p)
        for part in split_list(dags, 13 if p == 3 else 1):
            out.append({"stage": "law", "p": p, "codes": [c for c, _ in part], "configs": list(CONFIGS), "styles": list(STYLES)})
    out.append({"stage": "degenerate"})
    out.append({"stage": "magnitude"})
    out.append({"stage": "large-weights"})
    out.append({"stage": "narrow-float"})
    try:
        from mc.env import tape  # noqa: F401
        for p in (1, 2, 3):
            out.append({"stage": "ranges", "p": p})
    except ImportError:
        pass
    if tier == "thorough":
        dags = SP.dag_list(4)
        for part in split_list(dags, 181):
            out.append({"stage": "law", "p": 4, "codes": [c for c, _ in part],
                        "configs": [("generic", "float"), ("int", "int")], "styles": ["tuple"]})
        for part in split_list(dags[::5], 32):
            out.append({"stage": "law", "p": 4, "codes": [c for c, _ in part], "configs": [("generic", "float")], "styles": ["tuple-rev"]})
        for part in split_list(dags[::7], 16):
            out.append({"stage": "law", "p": 4, "codes": [c for c, _ in part],
                        "configs": [("cancel", "floatzero"), ("neg", "intW")], "styles": ["float", "int", "inttuple"]})
    else:
        dags = SP.dag_list(4)[::40]
        for part in split_list(dags, 14):
            out.append({"stage": "law", "p": 4, "codes": [c for c, _ in part],
                        "configs": [("generic", "float"), ("int", "int")], "styles": ["tuple", "tuple-rev"]})
    return out


def check_law(p, code, lab, cfg, assign, style):
    ch, _ = G.decode(p, code)
    W, means, variances = SP.model(p, ch, lab, cfg)
    lib, ora = SP.assignment_dicts(p, assign, style)
    desc = "LGANM(W=%s, means=%s (%s), variances=%s).sample(population=True, do=%s, noise=%s, shift=%s)" % (
        W.tolist(), means.tolist(), means.dtype, variances.tolist(), lib[0], lib[1], lib[2])
    try:
        model = sempler.LGANM(W.copy(), means.copy(), variances.copy())
        d = model.sample(population=True, do_interventions=dict(lib[0]), noise_interventions=dict(lib[1]),
                         shift_interventions=dict(lib[2]))
    except Exception as e:
        return [("lganm:raises-%s" % ("int-model" if cfg == "int" else "float-model"), "%s raised %r" % (desc, e))]
    em, ec, *_ = Q.scm_law(W.tolist(), means.tolist(), variances.tolist(), do=ora[0], noise=ora[1], shift=ora[2])
    out = []
    dt = "int-model" if cfg == "int" else "float-model"
    if np.shape(d.mean) != (p,) or np.shape(d.covariance) != (p, p):
        return [("lganm:shape", "%s: shapes %s %s" % (desc, np.shape(d.mean), np.shape(d.covariance)))]
    if not Q.close_vec(d.mean, em):
        out.append(("lganm:mean-%s" % dt, "%s: mean %s, exact %s" % (desc, np.asarray(d.mean).tolist(), Q.fl(em))))
    if not Q.close_mat(np.asarray(d.covariance).tolist(), ec):
        out.append(("lganm:covariance-%s" % dt, "%s: covariance %s, exact %s" % (desc, np.asarray(d.covariance).tolist(), Q.fl(ec))))
    return out


HUGE_M = [2.0 ** 60, -2.0 ** 55, 2.0 ** 58]
HUGE_V = [2.0 ** 60, 2.0 ** 57, 2.0 ** 50]


def check_magnitude(p, assign, style):
    """Edgeless model with huge noise parameters: mean = mu', covariance = diag(var') must hold exactly, entry by entry."""
    W = np.zeros((p, p))
    means, variances = np.array(HUGE_M[:p]), np.array(HUGE_V[:p])
    lib, ora = SP.assignment_dicts(p, assign, style)
    desc = "LGANM(W=0 (%dx%d), means=%s, variances=%s).sample(population=True, do=%s, noise=%s, shift=%s)" % (p, p, means.tolist(), variances.tolist(), lib[0], lib[1], lib[2])
    try:
        d = sempler.LGANM(W, means, variances).sample(population=True, do_interventions=dict(lib[0]), noise_interventions=dict(lib[1]), shift_interventions=dict(lib[2]))
    except Exception as e:
        return [("lganm:raises-magnitude", "%s raised %r" % (desc, e))]
    em, ec, *_ = Q.scm_law(W.tolist(), means.tolist(), variances.tolist(), do=ora[0], noise=ora[1], shift=ora[2])
    out = []
    for j in range(p):
        for got, exact, what in ((d.mean[j], em[j], "mean"), (d.covariance[j, j], ec[j][j], "variance")):
            if abs(float(got) - float(exact)) > 1e-9 * max(abs(float(exact)), 1e-300):
                out.append(("lganm:magnitude-%s" % what, "%s: %s of variable %d is %r, exact %r (relative error beyond rounding)" % (desc, what, j, float(got), float(exact))))
    return out[:2]


def large_weight_models():
    """(name, W): DAGs whose weights are large and positive (no cancellation: every entry of the exact law is a sum of positive terms)."""
    out = []
    for p, w in ((4, 1000.0), (6, 1000.0), (6, 1e6), (5, 1e8), (8, 100.0)):
        W = np.zeros((p, p))
        for i in range(p):
            for j in range(i + 1, p):
                W[i, j] = w
        out.append(("complete p=%d w=%g" % (p, w), W))
        C = np.zeros((p, p))
        for i in range(p - 1):
            C[i, i + 1] = w
        out.append(("chain p=%d w=%g" % (p, w), C))
        # the same graphs under labellings that are not topologically sorted (I - W^T is then triangular only up to a permutation)
        for perm in ([(3 * i + 1) % p for i in range(p)] if p % 3 else [(5 * i + 2) % p for i in range(p)], list(range(p - 1, -1, -1))):
            if sorted(perm) != list(range(p)):
                continue
            P = np.array(perm)
            out.append(("complete p=%d w=%g relabelled %s" % (p, w, perm), W[P, :][:, P]))
            out.append(("chain p=%d w=%g relabelled %s" % (p, w, perm), C[P, :][:, P]))
    # tiny positive weights (an edge is an entry != 0, however small), alone and next to a large weight that makes their effect visible
    for t in (1e-13, 2.0 ** -60, 1e-100):
        for perm in ((0, 1, 2), (2, 0, 1), (1, 2, 0)):
            P = np.array(perm)
            C = np.zeros((3, 3))
            C[0, 1], C[1, 2] = t, 1.0 / t
            out.append(("chain weights (%g, %g) relabelled %s" % (t, 1.0 / t, list(perm)), C[P, :][:, P]))
            D = np.zeros((3, 3))
            D[0, 1], D[1, 2], D[0, 2] = 1.0 / t, t, 1.0
            out.append(("complete weights (%g, %g, 1) relabelled %s" % (1.0 / t, t, list(perm)), D[P, :][:, P]))
        T = np.zeros((4, 4))
        for i in range(4):
            for j in range(i + 1, 4):
                T[i, j] = t
        out.append(("complete p=4 w=%g" % t, T))
        out.append(("complete p=4 w=%g relabelled [3, 2, 1, 0]" % t, T[::-1, ::-1].copy()))
    return out


def check_large_weights(idx, assign_kind):
    name, W = large_weight_models()[idx]
    p = len(W)
    means, variances = np.ones(p), np.ones(p)
    kw, ora = {}, ({}, {}, {})
    if assign_kind == "do0":
        kw = {"do_interventions": {0: (3.0, 2.0)}}
        ora = ({0: (3.0, 2.0)}, {}, {})
    elif assign_kind == "mixed":
        kw = {"do_interventions": {1: (3.0, 2.0)}, "shift_interventions": {0: (0.5, 0.25)}, "noise_interventions": {p - 1: (-1.0, 0.5)}}
        ora = ({1: (3.0, 2.0)}, {p - 1: (-1.0, 0.5)}, {0: (0.5, 0.25)})
    desc = "LGANM(%s, means=1, variances=1).sample(population=True, %s)" % (name, kw)
    try:
        d = sempler.LGANM(W, means, variances).sample(population=True, **kw)
    except Exception as e:
        return [("lganm:large-weights-raises", "%s raised %r for a valid DAG" % (desc, e))]
    em, ec, *_ = Q.scm_law(W.tolist(), means.tolist(), variances.tolist(), do=ora[0], noise=ora[1], shift=ora[2])
    out = []
    worst = 0.0
    for i in range(p):
        for got, exact in [(d.mean[i], em[i])] + [(d.covariance[i, j], ec[i][j]) for j in range(p)]:
            ex = float(exact)
            err = abs(float(got) - ex) / max(abs(ex), 1e-300) if ex != 0 else abs(float(got))
            worst = max(worst, err)
    if worst > 1e-9:
        out.append(("lganm:large-weights-inaccurate", "%s: worst entrywise relative error %.3g against the exact rational law (all terms positive, so no cancellation excuses it); "
                    "e.g. mean[0] = %r (exact %r), cov[0,0] = %r (exact %r)" % (desc, worst, float(d.mean[0]), float(em[0]), float(d.covariance[0, 0]), float(ec[0][0]))))
    return out


NARROW = ("float32", "float16", "int8", "uint8", "int32")


def check_narrow(dtype, assign):
    """A model whose mean / variance arrays have a narrow dtype, intervention parameters that this dtype cannot represent (0.1, 0.3, 0.7):
    the law must be that of the float64 parameters (all 8^3 assignments on the chain 0 -> 1 -> 2 with weights 2, -3)."""
    W = np.array([[0, 2.0, 0], [0, 0, -3.0], [0, 0, 0]])
    means = np.array([1, 2, 4], dtype=dtype)
    variances = np.array([2, 1, 4], dtype=dtype)
    par = {"do": (0.1, 0.3), "noise": (0.3, 0.7), "shift": (0.7, 0.1)}
    kinds = {"do": {}, "noise": {}, "shift": {}}
    for j, a in enumerate(assign):
        for bit, k in ((1, "do"), (2, "noise"), (4, "shift")):
            if a & bit:
                kinds[k][j] = par[k]
    desc = "LGANM(chain weights (2, -3), means=%s, variances=%s as %s arrays).sample(population=True, do=%s, noise=%s, shift=%s)" % (
        means.tolist(), variances.tolist(), dtype, kinds["do"], kinds["noise"], kinds["shift"])
    try:
        d = sempler.LGANM(W, means, variances).sample(population=True, do_interventions=dict(kinds["do"]),
                                                      noise_interventions=dict(kinds["noise"]), shift_interventions=dict(kinds["shift"]))
    except Exception as e:
        return [("lganm:narrow-dtype-raises", "%s raised %r" % (desc, e))]
    em, ec, *_ = Q.scm_law(W.tolist(), [float(x) for x in means], [float(x) for x in variances], do=kinds["do"], noise=kinds["noise"], shift=kinds["shift"])
    scale = max([1.0] + [abs(float(x)) for x in em] + [abs(float(x)) for row in ec for x in row])
    worst = max([abs(float(d.mean[i]) - float(em[i])) for i in range(3)] + [abs(float(d.covariance[i, j]) - float(ec[i][j])) for i in range(3) for j in range(3)])
    if worst > 1e-12 * scale:
        return [("lganm:narrow-dtype-parameters", "%s: mean %s, covariance diagonal %s; exact law has mean %s, diagonal %s (error %.3g: parameters were "
                 "rounded to the dtype of the model arrays)" % (desc, np.asarray(d.mean).tolist(), np.diag(d.covariance).tolist(), [float(x) for x in em], [float(ec[i][i]) for i in range(3)], worst))]
    return []


def degenerate_cases():
    cases = []
    for p in (1, 2, 3):
        for code, ch in SP.dag_list(p)[-3:]:
            for combo in itertools.product(("omit", "none", "empty"), repeat=3):
                cases.append({"p": p, "code": code, "combo": list(combo)})
    return cases


def check_degenerate(case):
    p, code = case["p"], case["code"]
    ch, _ = G.decode(p, code)
    W, means, variances = SP.model(p, ch, "generic", "float")
    kw = {}
    for name, c in zip(("do_interventions", "noise_interventions", "shift_interventions"), case["combo"]):
        if c == "none":
            kw[name] = None
        elif c == "empty":
            kw[name] = {}
    try:
        d = sempler.LGANM(W, means, variances).sample(population=True, **kw)
    except Exception as e:
        return [("lganm:degenerate-raises", "sample(population=True, %s) raised %r" % (kw, e))]
    em, ec, *_ = Q.scm_law(W.tolist(), means.tolist(), variances.tolist())
    if not Q.close_vec(d.mean, em) or not Q.close_mat(np.asarray(d.covariance).tolist(), ec):
        return [("lganm:degenerate-law", "sample(population=True, %s) is not the observational law" % (kw,))]
    return []


# ---------------------------------------------------------------------------------- ranges (E2)

RANGES = ((0, 1), (-2, -1), (-1, 1), (0.5, 0.5), (2, 5))


def check_ranges(p, mrange, vrange, answers, seed_arg):
    """LGANM(W, (lo,hi), (lo2,hi2), random_state) under the tape: uniform cells answered by `answers`."""
    from mc.env import tape
    W = np.zeros((p, p))
    for i in range(p - 1):
        W[i, i + 1] = -1.5
    with tape.Tape(answers=list(answers), uniform_menu=(0.0, 0.5, 1 - 2 ** -53)) as tp:
        try:
            m = sempler.LGANM(W, tuple(mrange), tuple(vrange), random_state=seed_arg)
        except tape.TapeError:
            raise
        except Exception as e:
            return [("lganm:ranges-raises", "LGANM(W, %s, %s) raised %r" % (mrange, vrange, e))], tp
    out = []
    desc = "LGANM(%dx%d, means=%s, variances=%s, random_state=%r) with uniform answers %s" % (p, p, tuple(mrange), tuple(vrange), seed_arg, list(answers))
    if tp.unmodelled:
        return [], tp
    cells = [c for c in tp.trace if c["kind"] == "uniform"]
    if np.shape(m.means) != (p,) or np.shape(m.variances) != (p,):
        return [("lganm:ranges-shape", "%s: means %s variances %s" % (desc, np.shape(m.means), np.shape(m.variances)))], tp
    # every parameter equals lo + (hi-lo)*u of its own cell (one cell per variable and vector) and lies in range
    used = set()
    for name, vecv, (lo, hi) in (("variances", m.variances, vrange), ("means", m.means, mrange)):
        # how does the implementation draw this vector?  uniform(lo, hi) cells, or lo + (hi-lo) * uniform(0, 1) cells; any other
        # way of producing the values is judged on the range only
        direct = [k for k, c in enumerate(cells) if (c["lo"], c["hi"]) == (float(lo), float(hi))]
        unit = [k for k, c in enumerate(cells) if (c["lo"], c["hi"]) == (0.0, 1.0)]
        for j in range(p):
            v = float(vecv[j])
            if not (min(lo, hi) - 1e-12 <= v <= max(lo, hi) + 1e-12):
                out.append(("lganm:ranges-outside", "%s: %s[%d] = %r outside [%s, %s]" % (desc, name, j, v, lo, hi)))
                continue
            if lo == hi or not (direct or unit):
                continue
            owners = [k for k in direct if k not in used and abs(cells[k]["value"] - v) <= 1e-12]
            owners += [k for k in unit if k not in used and abs(lo + (hi - lo) * cells[k]["frac"] - v) <= 1e-12]
            if not owners:
                out.append(("lganm:ranges-not-own-cell", "%s: %s[%d] = %r is not lo+(hi-lo)*u of a fresh uniform cell of its own" % (desc, name, j, v)))
            else:
                used.add(owners[0])
    return out, tp


def run_ranges(p, acc):
    from mc.env import tape
    for mrange in RANGES:
        for vrange in ((0, 1), (0.5, 2), (1, 1)):
            for seed_arg in (None, 0):
                # complete product over the uniform cells, by stateless DFS over the answer tree
                def run(prefix):
                    fails, tp = check_ranges(p, mrange, vrange, prefix, seed_arg)
                    acc.states += 1
                    acc.transitions += len(tp.trace)
                    acc.traces += 1
                    acc.extra["range_executions"] += 1
                    if tp.unmodelled:
                        acc.undecided += 1
                    if any(prefix):
                        acc.nontrivial += 1
                    acc.outcome(["ranges", p, mrange, vrange, [c.get("value") for c in tp.trace]])
                    for sig, msg in fails:
                        acc.fail("ranges", {"p": p, "mrange": list(mrange), "vrange": list(vrange), "answers": list(prefix), "seed_arg": seed_arg}, sig, msg)
                    return tp.points
                nexec, capped = tape.explore(run)
                assert not capped


def run_unit(unit):
    acc = Acc()
    st = unit["stage"]
    if st == "degenerate":
        for case in degenerate_cases():
            f = check_degenerate(case)
            acc.states += 1
            acc.transitions += 1
            acc.traces += 1
            acc.extra["degenerate_cases"] += 1
            acc.outcome(["deg", case["combo"]])
            for sig, msg in f:
                acc.fail("degenerate", case, sig, msg)
        return acc.out()
    if st == "ranges":
        run_ranges(unit["p"], acc)
        return acc.out()
    if st == "large-weights":
        for idx in range(len(large_weight_models())):
            for kind in ("none", "do0", "mixed"):
                f = check_large_weights(idx, kind)
                acc.states += 1
                acc.transitions += 1
                acc.traces += 1
                acc.nontrivial += 1
                acc.extra["large_weight_cases"] += 1
                acc.outcome(["large", idx, kind, bool(f)])
                for sig, msg in f:
                    acc.fail("large-weights", {"idx": idx, "kind": kind}, sig, msg)
        return acc.out()
    if st == "narrow-float":
        for dtype in NARROW:
            for assign in itertools.product(range(8), repeat=3):
                f = check_narrow(dtype, assign)
                acc.states += 1
                acc.transitions += 1
                acc.traces += 1
                acc.extra["narrow_dtype_cases"] += 1
                if any(assign):
                    acc.nontrivial += 1
                for sig, msg in f:
                    acc.fail("narrow", {"dtype": dtype, "assign": list(assign)}, sig, msg)
        return acc.out()
    if st == "magnitude":
        for p in (1, 2, 3):
            for style in ("tuple", "float"):
                for assign in itertools.product(range(8), repeat=p):
                    f = check_magnitude(p, assign, style)
                    acc.states += 1
                    acc.transitions += 1
                    acc.traces += 1
                    acc.extra["magnitude_cases"] += 1
                    if any(assign):
                        acc.nontrivial += 1
                    for sig, msg in f:
                        acc.fail("magnitude", {"p": p, "assign": list(assign), "style": style}, sig, msg)
        return acc.out()
    p = unit["p"]
    for code in unit["codes"]:
        for lab, cfg in unit["configs"]:
            for style in unit["styles"]:
                if style == "inttuple" and cfg not in ("int", "intW"):
                    continue
                if style == "tuple-rev" and cfg not in ("float", "int"):
                    continue
                for assign in itertools.product(range(8), repeat=p):
                    f = check_law(p, code, lab, cfg, assign, style)
                    acc.states += 1
                    acc.transitions += 1
                    acc.traces += 1
                    acc.extra["law_p%d_%s" % (p, cfg)] += 1
                    if any(a not in (0, 1, 2, 4) for a in assign):
                        acc.nontrivial += 1       # at least one variable carries overlapping interventions
                    acc.outcome([code, cfg, assign[:2]])
                    if len(acc.samples) < 1 and p >= 3 and assign[0] == 7 and assign[1] == 2 and G.nedges(p, code) >= 2:
                        lib, _ = SP.assignment_dicts(p, assign, style)
                        acc.sample({"W": SP.model(p, G.decode(p, code)[0], lab, cfg)[0].tolist(), "config": cfg, "style": style,
                                    "do": lib[0], "noise": lib[1], "shift": lib[2]})
                    for sig, msg in f:
                        acc.fail("law", {"p": p, "code": code, "lab": lab, "cfg": cfg, "assign": list(assign), "style": style}, sig, msg)
    return acc.out()


def replay(kind, case):
    if kind == "degenerate":
        return check_degenerate(case)
    if kind == "large-weights":
        return check_large_weights(case["idx"], case["kind"])
    if kind == "magnitude":
        return check_magnitude(case["p"], tuple(case["assign"]), case["style"])
    if kind == "narrow":
        return check_narrow(case["dtype"], tuple(case["assign"]))
    if kind == "ranges":
        return check_ranges(case["p"], case["mrange"], case["vrange"], case["answers"], case["seed_arg"])[0]
    return check_law(case["p"], case["code"], case["lab"], case["cfg"], tuple(case["assign"]), case["style"])


def describe(tier, seed):
    return {
        "technique": "exhaustive small-scope enumeration of models x intervention assignments on the real code vs exact rational solution of the "
                     "intervened structural equations; (low, high) parameter ranges by exhaustive enumeration of harness-owned RNG answers",
        "rule": "every labelled DAG p<=3 (25 at p=3) x {generic float, cancelling weights with a zero variance, int64 W/means/variances, int W only} x "
                "all 8^p assignments of a subset of {do, noise, shift} per variable x parameter styles {(mean,var) tuple with fractional values, "
                "float scalar, int scalar, integer tuple, tuple with the dict keys inserted in descending order}; quick adds every 40th 4-node DAG, thorough all 543 4-node DAGs x 4096 assignments for a "
                "float and an int64 model; None / {} for every keyword combination; edgeless models with noise parameters of magnitude 2^50..2^60 under all 8^p assignments (entrywise relative accuracy); complete and chain DAGs on 4..8 nodes with positive weights 100..1e8 (no exception, entrywise relative accuracy against the exact law); mean / variance arrays of dtype float32, float16, int8, uint8, int32 with parameters 0.1, 0.3, 0.7 under all 8^3 assignments on a 3-chain; LGANM(W,(lo,hi),(lo,hi)) for 5 mean ranges x 3 variance "
                "ranges with all 3^(2p) answers of the uniform cells, p<=3. non-trivial: some variable carries overlapping interventions",
        "exhaustive": True,
        "bounds": {"p_exhaustive": 4 if tier == "thorough" else 3},
        "assumptions": ["numpy-scalar intervention parameters and lo > hi ranges are outside the quantifier",
                        "tolerance 1e-9 relative to max(1, |exact|) on dyadic, well-conditioned alphabets"],
    }
