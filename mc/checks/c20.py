"""C20 - noise factories draw n values from the documented law (E2, basis mode + branching)."""
import math

import numpy as np

import sempler.noise as noise
import sempler.functions as functions

from mc.run import Acc
from mc.env import tape

ID = "C20"
MANIFEST = {"engine": "E2"}
NS = (0, 1, 2, 5)
_TIER = ["quick"]


def prepare(tier, seed):
    _TIER[0] = tier


def configs(tier):
    out = []
    ms = (0, -1.5, 2) if tier == "quick" else (0, -1.5, 2, 10.25, -0.125)
    vs = (0.25, 1, 4, 9) if tier == "quick" else (0.25, 1, 4, 9, 2.25, 0.0625, 100)
    for m in ms:
        for v in vs:
            out.append({"f": "normal", "args": [m, v]})
    los = ((0, 1), (-2, -1), (-1, 1), (0.5, 2), (-3, 0)) if tier == "quick" else ((0, 1), (-2, -1), (-1, 1), (0.5, 2), (-3, 0), (10, 10.5), (-0.25, 4))
    for lo, hi in los:
        out.append({"f": "uniform", "args": [lo, hi]})
    for m in (0, -1.5, 2):
        for s in ((0.5, 1, 3) if tier == "quick" else (0.5, 1, 3, 0.125, 7)):
            out.append({"f": "laplace", "args": [m, s]})
    out += [{"f": "normal", "args": []}, {"f": "uniform", "args": []}, {"f": "laplace", "args": []}, {"f": "zero", "args": []},
            {"f": "normal", "args": [3]}, {"f": "uniform", "args": [-1]}, {"f": "laplace", "args": [2]}]
    # the same values carried by numpy scalars (parameters computed with numpy)
    for t, (m, v) in (("int64", (-3, 4)), ("float32", (1.5, 0.25)), ("float64", (-1.5, 9.0)), ("int32", (2, 1))):
        out += [{"f": "normal", "args": [m, v], "np": t}, {"f": "uniform", "args": [min(m, v) - 1, max(m, v)], "np": t}, {"f": "laplace", "args": [m, v], "np": t}]
    return out


def units(tier, seed):
    cs = configs(tier)
    return [{"stage": "factory", "cfgs": cs[i::8]} for i in range(8)] + [{"stage": "null"}, {"stage": "realseed", "cfgs": cs}]


def spec(cfg):
    """documented parameters incl. defaults."""
    f, a = cfg["f"], cfg["args"]
    if f == "normal":
        return (a + [0, 1][len(a):])[:2]
    if f == "uniform":
        return (a + [0, 1][len(a):])[:2]
    if f == "laplace":
        return (a + [0, 1][len(a):])[:2]
    return []


def make(cfg):
    args = cfg["args"]
    if cfg.get("np"):
        args = [getattr(np, cfg["np"])(a) for a in args]
    return getattr(noise, cfg["f"])(*args)


def desc(cfg, n):
    wrap = ("np.%s(%%s)" % cfg["np"]) if cfg.get("np") else "%s"
    return "noise.%s(%s)(%d)" % (cfg["f"], ", ".join(wrap % a for a in cfg["args"]), n)


def shape_fail(cfg, n, out):
    a = np.asarray(out)
    if a.ndim != 1 or a.shape[0] != n:
        return [("shape", "%s returned shape %s, expected (%d,)" % (desc(cfg, n), a.shape, n))]
    return []


def check_normal(cfg, n, acc):
    m, v = spec(cfg)

    def run(z):
        with tape.Tape(normal_values=z) as tp:
            f = make(cfg)
            out = f(n)
            streams = set(c["addr"][0][0] for c in tp.trace)
        run.last = (tp, streams)
        return np.asarray(out, dtype=float), tp.n_normal(), tp.unmodelled
    with tape.Tape() as tp0:
        first = make(cfg)(n)
    sf = shape_fail(cfg, n, first)
    if sf:
        return sf
    res = tape.affine_response(run)
    acc.states += res["executions"]
    acc.traces += res["executions"]
    acc.transitions += res["n"] * res["executions"]
    tp, streams = run.last
    if res["unmodelled"] or not res["affine_ok"] or (n > 0 and res["n"] == 0 and tp.points):
        acc.undecided += 1           # e.g. a normal sampler built on uniform draws: outside the basis analysis, judged by the seeded stage only
        return []
    d = desc(cfg, n)
    fails = []
    if streams - {"G"}:
        fails.append(("not-global-stream", "%s draws from a private generator %s, not numpy's global stream" % (d, sorted(streams))))
    if not np.allclose(res["base"], m, rtol=0, atol=1e-12 * max(1, abs(m))):
        fails.append(("normal-mean", "%s with all standard normals 0 gives %s, expected the mean %s" % (d, res["base"].tolist(), m)))
    R = res["R"]           # cells x elements
    sd = math.sqrt(v)
    # every element responds to exactly one cell, distinct cells, with coefficient +-sqrt(var)
    C = R.T @ R
    if res["n"] < n or not np.allclose(C, v * np.eye(n), rtol=0, atol=1e-9 * max(1, v)):
        fails.append(("normal-variance", "%s: response of the output to the standard-normal cells gives covariance %s, expected %s * I (variance = var, i.i.d.)" % (
            d, np.round(C, 6).tolist() if n <= 3 else np.round(np.diag(C), 6).tolist(), v)))
    elif np.any(np.sum(np.abs(R) > 1e-12, axis=0) != 1):
        fails.append(("normal-not-own-cell", "%s: some element depends on several standard-normal cells" % d))
    acc.outcome([cfg, n, np.round(np.diag(C), 9).tolist() if n else []])
    return fails


def quant(cfg, frac):
    f = cfg["f"]
    a, b = spec(cfg)
    if f == "uniform":
        return a + (b - a) * frac, b - (b - a) * frac
    return tape.laplace_quantile(frac, a, b), tape.laplace_quantile(1 - frac, a, b) if 0 < frac < 1 else None


def check_branch(cfg, n, acc):
    """uniform / laplace: every element is the documented quantile transform of exactly one own fresh cell."""
    kind = cfg["f"]
    menu = (0.5, 0.0, 0.25, 0.75, tape.TOP) if kind == "uniform" else (0.5, 0.05, 0.25, 0.75, 0.95)
    pol = lambda k, lo, hi: menu
    fails = []
    runs = {}
    unrecognised = [0]
    d = desc(cfg, n)

    def run(prefix):
        with tape.Tape(answers=prefix, menu_policy=pol) as tp:
            f = make(cfg)
            out = f(n)
            out2 = f(n)          # a second call of the same callable must use fresh cells
        acc.states += 1
        acc.traces += 1
        acc.transitions += len(tp.points)
        if any(prefix):
            acc.nontrivial += 1
        if tp.unmodelled:
            acc.undecided += 1
            return tp.points
        sf = shape_fail(cfg, n, out) + shape_fail(cfg, n, out2)
        if sf:
            fails.extend(sf)
            return tp.points
        if any(c["addr"][0][0] != "G" for c in tp.trace):
            fails.append(("not-global-stream", "%s draws from a private generator, not numpy's global stream" % d))
        if len(tp.points) != len(tp.trace):
            fails.append(("cells-reused", "%s: two calls re-used the same RNG cells (%d draws, %d fresh)" % (d, len(tp.trace), len(tp.points))))
        runs[tuple(prefix)] = (np.asarray(out, dtype=float), np.asarray(out2, dtype=float), tp.trace)
        lo, hi = spec(cfg)
        # the transform rule presupposes draws through uniform / laplace cells; a sampler built on other base laws (exponentials, ...)
        # is judged on shape, support, independence (below) and by the seeded stage only
        recognised = all("frac" in c for c in tp.trace)
        if not recognised:
            unrecognised[0] += 1
        for o in (out, out2):
            for x in np.asarray(o, dtype=float):
                if kind == "uniform" and not (min(lo, hi) <= x <= max(lo, hi)):
                    fails.append(("uniform-outside", "%s returned %r outside [%s, %s]" % (d, x, lo, hi)))
                if not recognised:
                    continue
                cand = []
                for c in tp.trace:
                    if "frac" in c:
                        cand += [q for q in quant(cfg, c["frac"]) if q is not None]
                if not any(abs(x - q) <= 1e-9 * max(1, abs(q)) for q in cand):
                    fails.append(("%s-law" % kind, "%s returned %r, which is not the documented %s transform of any of its uniform draws %s (or the mirror image)" % (
                        d, x, "lo+(hi-lo)*u" if kind == "uniform" else "Laplace(mean, scale) quantile", [c.get("frac") for c in tp.trace][:4])))
                    return tp.points
        acc.outcome([cfg, n, np.asarray(out).tolist()])
        return tp.points

    tape.explore(run, bound=1)
    if unrecognised[0]:
        acc.undecided += 1
        acc.extra["configs_structure_not_recognised"] += 1
    base = runs.get(())
    if base is not None and not fails and n > 0:
        infl = {}
        for prefix, (o1, o2, tr) in runs.items():
            if not prefix:
                continue
            cell = len(prefix) - 1
            changed = [("a", i) for i in range(n) if o1[i] != base[0][i]] + [("b", i) for i in range(n) if o2[i] != base[1][i]]
            infl.setdefault(cell, set()).update(changed)
        owned = set()
        for ch in infl.values():
            owned |= ch
        if any(len(ch) > 1 for ch in infl.values()):
            fails.append(("shared-draw", "%s: one RNG cell changes several returned values (draws are not independent)" % d))
        elif len(owned) != 2 * n:
            fails.append(("no-own-draw", "%s: only %d of the %d returned values (two calls) respond to an RNG cell" % (d, len(owned), 2 * n)))
    return fails[:4]


def check_zero(cfg, n, acc):
    with tape.Tape() as tp:
        out = make(cfg)(n)
    acc.states += 1
    acc.traces += 1
    acc.transitions += 1
    fails = shape_fail(cfg, n, out)
    if not fails and (np.any(np.asarray(out) != 0) or tp.trace):
        fails.append(("zero", "%s returned %s and consumed %d RNG cells" % (desc(cfg, n), np.asarray(out).tolist(), len(tp.trace))))
    if not fails and n:
        # "identically 0" on every call: a caller adding a signal in place to one result must not change the next
        try:
            out += 5.0
        except Exception:
            pass
        for f2 in (make(cfg), make(cfg)):
            again = np.asarray(f2(n))
            if np.any(again != 0):
                fails.append(("zero-after-write", "%s returns %s after an earlier result was modified in place by the caller" % (desc(cfg, n), again.tolist())))
                break
    return fails


def check_cfg(cfg, n, acc):
    try:
        if cfg["f"] == "normal":
            return check_normal(cfg, n, acc)
        if cfg["f"] == "zero":
            return check_zero(cfg, n, acc)
        return check_branch(cfg, n, acc)
    except tape.TapeError:
        raise
    except Exception as e:
        import traceback
        if any("/mc/" not in f.filename for f in traceback.extract_tb(e.__traceback__)[-2:]):
            return [("raises", "%s raised %r" % (desc(cfg, n), e))]
        raise


def check_null(acc):
    fails = []
    args = [(), (np.zeros((3, 2)),), (np.ones((2, 1)), 5), (np.zeros((0, 0)),)]
    for a in args:
        r = functions.null(*a)
        acc.states += 1
        acc.transitions += 1
        acc.traces += 1
        if not (np.isscalar(r) or np.ndim(r) == 0) or r != 0:
            fails.append(("null", "functions.null(%d argument(s)) returned %r, expected exactly 0" % (len(a), r)))
    return fails


def check_realseed(cfg, acc):
    """real numpy: reproducible after seeding the global generator; consecutive draws differ."""
    fails = []
    if cfg["f"] == "zero":
        return fails
    import copy
    f = make(cfg)
    g = copy.deepcopy(f)          # what sempler.ANM keeps: the copy must still draw from numpy's global generator
    try:
        np.random.seed(123)
        a = f(4)
        np.random.seed(123)
        b = g(4)
        np.random.seed(123)
        c = g(4)
        acc.transitions += 3
        if not np.array_equal(b, c) or not np.array_equal(a, b):
            fails.append(("deepcopy-not-global-stream", "a deep copy of %s does not follow numpy's global generator: after the same np.random.seed it returns %s / %s, the original %s" % (
                desc(cfg, 4), np.asarray(b).tolist(), np.asarray(c).tolist(), np.asarray(a).tolist())))
    except Exception as e:
        return [("raises", "deep copy of %s raised %r" % (desc(cfg, 4), e))]
    for s in (0, 1, 2 ** 32 - 1):
        try:
            np.random.seed(s)
            a = f(5)
            b = f(5)
            np.random.seed(s)
            a2 = f(5)
        except Exception as e:
            return [("raises", "%s raised %r" % (desc(cfg, 5), e))]
        acc.states += 1
        acc.traces += 1
        acc.transitions += 3
        if not np.array_equal(a, a2):
            fails.append(("not-reproducible", "%s is not reproducible after np.random.seed(%d)" % (desc(cfg, 5), s)))
        if np.array_equal(a, b):
            fails.append(("degenerate", "%s returns the same values on consecutive calls" % desc(cfg, 5)))
    # large requests (a size threshold may switch the implementation to another code path): shape, global stream, twice in a row
    for n in (1000, 100000, 2 ** 17 + 3):
        try:
            np.random.seed(7)
            a = f(n)
            np.random.seed(7)
            a2 = f(n)
            b = f(n)
        except Exception as e:
            return fails + [("raises", "%s raised %r" % (desc(cfg, n), e))]
        acc.states += 1
        acc.traces += 1
        acc.transitions += 3
        acc.extra["large_n_draws"] += 3
        sf = shape_fail(cfg, n, a) or shape_fail(cfg, n, b)
        if sf:
            fails += sf
        elif not np.array_equal(a, a2):
            fails.append(("not-reproducible", "%s is not reproducible after np.random.seed(7): %d of %d values differ" % (desc(cfg, n), int(np.sum(np.asarray(a) != np.asarray(a2))), n)))
        elif np.array_equal(a, b):
            fails.append(("degenerate", "%s returns the same values on consecutive calls" % desc(cfg, n)))
        elif cfg["f"] == "uniform":
            lo, hi = spec(cfg)
            if lo <= hi and not (np.all(np.asarray(a) >= lo) and np.all(np.asarray(a) <= hi)):
                fails.append(("uniform-out-of-range", "%s returns values outside [%r, %r]" % (desc(cfg, n), lo, hi)))
    return fails


def run_unit(unit):
    acc = Acc()
    if unit["stage"] == "null":
        for sig, msg in check_null(acc):
            acc.fail("null", {}, sig, msg)
        acc.nontrivial += 1
    elif unit["stage"] == "realseed":
        for cfg in unit["cfgs"]:
            for sig, msg in check_realseed(cfg, acc):
                acc.fail("realseed", {"cfg": cfg}, sig, msg)
    else:
        for cfg in unit["cfgs"]:
            for n in NS:
                fails = check_cfg(cfg, n, acc)
                acc.extra["factory_configs"] += 1
                if n > 0:
                    acc.nontrivial += 1
                for sig, msg in fails:
                    acc.fail("factory", {"cfg": cfg, "n": n}, sig, msg)
            acc.sample({"factory": cfg["f"], "args": cfg["args"], "n_values": list(NS)})
    return acc.out()


def replay(kind, case):
    acc = Acc()
    if kind == "null":
        return check_null(acc)
    if kind == "realseed":
        return check_realseed(case["cfg"], acc)
    return check_cfg(case["cfg"], case["n"], acc)


def describe(tier, seed):
    return {
        "technique": "harness-owned numpy.random: exhaustive basis responses of the output to every standard-normal cell (exact law of an affine function of "
                     "i.i.d. normals) and exhaustive single-cell deviations over a quantile menu for uniform/Laplace draws, on the real factories",
        "rule": "normal(m, v) for a grid of means x variances (v != 1 included), uniform(lo, hi) for ranges of either sign, laplace(m, s), zero(), defaults and "
                "single-argument forms, parameters also as numpy scalars (int64, int32, float32, float64), n in {0,1,2,5}; normal: output = m + sqrt(v) * (own standard-normal cell) for every element (response covariance = v*I); "
                "uniform/laplace: every element is lo+(hi-lo)*u resp. the Laplace(m, s) quantile of its own fresh uniform cell (or the mirror image) for u over a 5-point "
                "menu, two consecutive calls use disjoint cells; all cells come from numpy's global stream; zero() consumes nothing; functions.null(...) == 0; real numpy: "
                "seed(s); f(5) reproducible for s in {0, 1, 2^32-1} and consecutive draws differ; the same for large requests n in {1000, 100000, 2^17+3} (shape, support, reproducible, "
                "consecutive draws differ). non-trivial: n > 0",
        "exhaustive": True,
        "bounds": {"n": list(NS), "deviation": 1},
        "assumptions": ["numpy's standard_normal / uniform base draws are i.i.d. N(0,1) / U[0,1): moments follow from the verified transform, no statistics are computed",
                        "numpy's own laplace implementation is replaced by the quantile transform of one uniform cell with the (loc, scale) the library passes"],
    }
