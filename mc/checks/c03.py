"""C03 - acyclicity test and topological order are exact for any weights (E1).

Exhaustive over square matrices with entries from small signed alphabets (diagonal included for
p <= 3), float64 and int64.  Oracle: colouring DFS on the non-zero pattern (refmodel.graphs).
"""
import numpy as np

import sempler
import sempler.utils as U
import sempler.noise
import sempler.semi

from mc.run import Acc
from mc.refmodel import graphs as G
from mc.spaces import chunks

ID = "C03"
ALPHS = ([0, 1, -1], [0, 1, -2], [0, 1e-170, -1e-200], [0, 2 ** 32, -2 ** 33], [0, 1e200, -1e-300])


def matrix_from_case(case):
    p, alph, code, diag = case["p"], case["alph"], case["code"], case["diag"]
    M = [[0] * p for _ in range(p)]
    for i in range(p):
        for j in range(p):
            if i == j and not diag:
                continue
            M[i][j] = alph[code % len(alph)]
            code //= len(alph)
    return M


def nentries(p, diag):
    return p * p if diag else p * (p - 1)


def units(tier, seed):
    out = []
    for alph in ALPHS:
        for p in (1, 2, 3):
            n = len(alph) ** nentries(p, True)
            for lo, hi in chunks(0, n, 8 if p == 3 else 1):
                out.append({"stage": "full", "p": p, "alph": alph, "diag": True, "lo": lo, "hi": hi})
    out.append({"stage": "large"})
    # p = 4, zero diagonal: all 4096 patterns under three sign labelings (quick) ...
    for lab in ("bin", "neg", "cancel"):
        for lo, hi in chunks(0, 4096, 4):
            out.append({"stage": "pattern4", "lab": lab, "lo": lo, "hi": hi})
    # ... and every matrix over {0,1,-1} (thorough): 3^12 = 531,441
    if tier == "thorough":
        for lo, hi in chunks(0, 3 ** 12, 64):
            out.append({"stage": "full", "p": 4, "alph": [0, 1, -1], "diag": False, "lo": lo, "hi": hi})
        for lo, hi in chunks(0, 3 ** 12, 64):
            out.append({"stage": "full", "p": 4, "alph": [0, 2, -1], "diag": False, "lo": lo, "hi": hi})
        for alph in ([0, 1], [0, -1]):                  # every zero-diagonal pattern on 5 nodes (2^20), positive and negative
            for lo, hi in chunks(0, 2 ** 20, 128):
                out.append({"stage": "full", "p": 5, "alph": alph, "diag": False, "lo": lo, "hi": hi})
    return out


def pattern4_case(lab, code):
    p = 4
    M = [[0] * p for _ in range(p)]
    k = 0
    for i in range(p):
        for j in range(p):
            if i != j:
                M[i][j] = code >> k & 1
                k += 1
    if lab == "neg":
        M = [[-x for x in row] for row in M]
    elif lab == "cancel":
        # alternate signs down every column so that columns with an even number of entries sum to 0,
        # and make the overall sum <= 0
        for j in range(p):
            t = 0
            for i in range(p):
                if M[i][j]:
                    M[i][j] = -1 if t % 2 == 0 else 1
                    t += 1
    return {"p": p, "M": M}


_DATA = {}


def check_matrix(M, dtype):
    """Returns list of (sig, msg)."""
    fails = []
    p = len(M)
    A = np.array(M, dtype=np.int64 if dtype == "int" else float)
    cyclic = G.pattern_has_cycle(M)
    # is_dag
    try:
        r = U.is_dag(A.copy())
        if bool(r) != (not cyclic):
            fails.append(("is_dag:%s" % ("accepts-cyclic" if cyclic else "rejects-acyclic"),
                          "is_dag(%s)=%r but the non-zero pattern is %s" % (M, r, "cyclic" if cyclic else "acyclic")))
    except Exception as e:
        fails.append(("is_dag:raises", "is_dag(%s) raised %r" % (M, e)))
    # topological_ordering
    try:
        o = U.topological_ordering(A.copy())
        if cyclic:
            fails.append(("topo:no-error-on-cycle", "topological_ordering(%s) returned %s for a cyclic pattern" % (M, list(o))))
        elif not G.is_topological_order(M, o):
            fails.append(("topo:invalid-order", "topological_ordering(%s) returned %s, not a permutation with all edges forward" % (M, list(o))))
    except ValueError:
        if not cyclic:
            fails.append(("topo:error-on-dag", "topological_ordering(%s) raised ValueError for an acyclic pattern" % (M,)))
    except Exception as e:
        fails.append(("topo:wrong-exception", "topological_ordering(%s) raised %r" % (M, e)))
    # constructors
    def ctor(name, f):
        try:
            f()
            if cyclic:
                fails.append((name + ":accepts-cyclic", "%s accepted the cyclic matrix %s" % (name, M)))
        except ValueError:
            if not cyclic:
                fails.append((name + ":rejects-acyclic", "%s raised ValueError for the acyclic matrix %s" % (name, M)))
        except Exception as e:
            fails.append((name + ":wrong-exception", "%s(%s) raised %r" % (name, M, e)))
    ctor("LGANM", lambda: sempler.LGANM(A.copy(), np.zeros(p), np.ones(p)))
    ctor("ANM", lambda: sempler.ANM(A.copy(), [None] * p, [sempler.noise.normal()] * p))
    if p not in _DATA:
        _DATA[p] = [np.arange(2.0 * p).reshape(2, p)]
    ctor("BayesianNetwork", lambda: sempler.semi.BayesianNetwork(A.copy(), _DATA[p]))
    return fails, cyclic


def _order_of(M):
    try:
        return [int(x) for x in U.topological_ordering(np.array(M, dtype=float))]
    except Exception:
        return None


def large_cases():
    """'all sizes p >= 1': long chains in both labellings, a long cycle, a wide star, a chain with a negative self-loop at the end."""
    out = []
    for p in (1200, 2500):
        for kind in ("chain-up", "chain-down", "cycle", "star", "chain-selfloop"):
            out.append({"p": p, "kind": kind})
    return out


def large_matrix(case):
    p, kind = case["p"], case["kind"]
    A = np.zeros((p, p))
    ix = np.arange(p - 1)
    if kind in ("chain-up", "cycle", "chain-selfloop"):
        A[ix, ix + 1] = -1.5
    if kind == "chain-down":
        A[ix + 1, ix] = 2.0
    if kind == "cycle":
        A[p - 1, 0] = -0.5
    if kind == "star":
        A[0, 1:] = 1.0
    if kind == "chain-selfloop":
        A[p - 1, p - 1] = -1.0
    return A, kind in ("cycle", "chain-selfloop")


def check_large(case):
    A, cyclic = large_matrix(case)
    d = "%s on %d nodes" % (case["kind"], case["p"])
    fails = []
    try:
        r = U.is_dag(A.copy())
        if bool(r) != (not cyclic):
            fails.append(("is_dag:large", "is_dag(%s) = %r" % (d, r)))
    except Exception as e:
        fails.append(("is_dag:large-raises", "is_dag(%s) raised %r" % (d, e)))
    try:
        o = U.topological_ordering(A.copy())
        if cyclic:
            fails.append(("topo:large-no-error", "topological_ordering(%s) returned an ordering for a cyclic graph" % d))
        else:
            o = [int(x) for x in o]
            pos = {v: k for k, v in enumerate(o)}
            ii, jj = np.nonzero(A)
            if sorted(o) != list(range(case["p"])) or any(pos[int(i)] >= pos[int(j)] for i, j in zip(ii, jj)):
                fails.append(("topo:large-invalid", "topological_ordering(%s) is not a valid ordering" % d))
    except ValueError:
        if not cyclic:
            fails.append(("topo:large-error-on-dag", "topological_ordering(%s) raised ValueError for an acyclic graph" % d))
    except Exception as e:
        fails.append(("topo:large-raises", "topological_ordering(%s) raised %r" % (d, e)))
    for name, f in (("LGANM", lambda: sempler.LGANM(A.copy(), np.zeros(case["p"]), np.ones(case["p"]))),
                    ("ANM", lambda: sempler.ANM(A.copy(), [None] * case["p"], [sempler.noise.normal()] * case["p"]))):
        try:
            f()
            if cyclic:
                fails.append((name + ":large-accepts-cyclic", "%s accepted %s" % (name, d)))
        except ValueError:
            if not cyclic:
                fails.append((name + ":large-rejects-acyclic", "%s raised ValueError for %s" % (name, d)))
        except Exception as e:
            fails.append((name + ":large-raises", "%s(%s) raised %r" % (name, d, e)))
    return fails


def run_unit(unit):
    acc = Acc()
    cases = []
    if unit["stage"] == "large":
        for case in large_cases():
            f = check_large(case)
            acc.states += 1
            acc.transitions += 4
            acc.traces += 1
            acc.nontrivial += 1
            acc.extra["large_graphs"] += 1
            acc.outcome(["large", case["kind"], bool(f)])
            for sig, msg in f:
                acc.fail("large", case, sig, msg)
        return acc.out()
    if unit["stage"] == "full":
        for code in range(unit["lo"], unit["hi"]):
            cases.append({"p": unit["p"], "alph": unit["alph"], "code": code, "diag": unit["diag"]})
    else:
        for code in range(unit["lo"], unit["hi"]):
            cases.append(pattern4_case(unit["lab"], code))
    for case in cases:
        M = case["M"] if "M" in case else matrix_from_case(case)
        intable = all(float(x).is_integer() and abs(x) < 2 ** 62 for r in M for x in r)
        for dtype in (("float", "int") if intable else ("float",)):
            fails, cyclic = check_matrix(M, dtype)
            acc.states += 1
            acc.transitions += 5
            acc.traces += 1
            acc.extra["cyclic" if cyclic else "acyclic"] += 1
            nz = sum(1 for r in M for x in r if x)
            neg = any(x < 0 for r in M for x in r)
            if nz >= 2 and neg:
                acc.nontrivial += 1
            acc.outcome([cyclic, bool(fails), _order_of(M) if dtype == "float" else None])
            for sig, msg in fails:
                acc.fail("matrix", {"M": M, "dtype": dtype}, sig, msg)
        if len(acc.samples) < 2 and any(x < 0 for r in M for x in r) and acc.states > 20:
            acc.sample({"matrix": M, "cyclic": G.pattern_has_cycle(M)})
    return acc.out()


def replay(kind, case):
    if kind == "large":
        return check_large(case)
    fails, _ = check_matrix(case["M"], case["dtype"])
    return fails


def describe(tier, seed):
    return {
        "technique": "exhaustive small-scope input enumeration on the real code vs DFS cycle oracle",
        "rule": "every square matrix over {0,1,-1}, {0,1,-2}, {0,1e-170,-1e-200}, {0,2^32,-2^33}, {0,1e200,-1e-300} incl. diagonal for p<=3; chains / cycle / star on 1200 and 2500 nodes; all 4096 zero-diagonal "
                "patterns at p=4 under bin/neg/cancel sign labelings (thorough: every zero-diagonal 4x4 matrix over "
                "{0,1,-1} and {0,2,-1}); each as float64 and int64; a case is non-trivial when it has >=2 non-zero "
                "entries and a negative weight; 5 library calls per case (is_dag, topological_ordering, LGANM, ANM, "
                "semi.BayesianNetwork)",
        "exhaustive": True,
        "bounds": {"p_full_with_diagonal": 3, "p_patterns": 4, "alphabets": [[0, 1, -1], [0, 1, -2]],
                   "p4_full_matrices": tier == "thorough"},
        "assumptions": ["entries outside the small signed alphabets are not explored",
                        "semi.BayesianNetwork is exercised on a stand-in rpy2 (stubs/rpy2); only its Python side runs"],
    }
