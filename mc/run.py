"""Runner: bin/check <ID> <quick|thorough> [--replay <file>].

Loads mc.checks.<id>, spreads its work units over a process pool, aggregates the coverage
counters, re-executes every failing case from its replay record before reporting it, matches
failures against known_findings.json, writes evidence/<ID>.json and prints

    VIOLATION property=<ID> replay=<path>          (exit 1)
    KNOWN-FINDING: property=<ID> <what fails>      (exit 0 if nothing else failed)

Exit 2 = harness problem (exception in the machinery, non-reproducible failure); never used for
a property verdict.
"""
import argparse
import hashlib
import importlib
import json
import multiprocessing as mp
import os
import sys
import time
import traceback
from collections import Counter

ROOT = os.path.dirname(os.path.dirname(os.path.abspath(__file__)))
# evidence and replay files of runs against a scratch worktree (mutation experiments) never land in /verif
OUT = os.environ.get("VERIF_OUT") or (ROOT if os.path.realpath(os.environ.get("VERIF_REPO", "/repo")) == "/repo" else "/tmp/verif-scratch")
MAX_REPORTED = 12          # replay files / VIOLATION lines per run
MAX_SAMPLES = 6


# ----------------------------------------------------------------------------------------------
# accumulator used by the checks inside run_unit

class Acc:
    """Per-unit accumulator. Everything in it is measured, nothing is a constant."""

    def __init__(self, keep_samples=2, keep_failures=4):
        self.states = 0            # distinct configurations / executions explored
        self.transitions = 0       # library calls (or answered choice points) compared with the oracle
        self.traces = 0            # executions of the implementation validated against the model
        self.nontrivial = 0        # distinct cases that are non-trivial by the check's rule
        self.undecided = 0
        self.outcomes = set()      # digests of observed outcomes (distinct_outcomes)
        self.samples = []
        self.failures = []
        self.nfail = 0
        self.extra = Counter()
        self._ks = keep_samples
        self._kf = keep_failures

    def sample(self, obj):
        if len(self.samples) < self._ks:
            self.samples.append(obj)

    def outcome(self, obj):
        if len(self.outcomes) < 20000:
            self.outcomes.add(digest(obj)[:12])

    def fail(self, kind, case, sig, msg):
        self.nfail += 1
        self.extra["fail:" + sig] += 1
        # keep the first failure of every signature (simplest-first enumeration => smallest)
        if sum(1 for f in self.failures if f["sig"] == sig) < self._kf:
            self.failures.append({"kind": kind, "case": case, "sig": sig, "msg": str(msg)[:2000]})

    def out(self):
        return {"states": self.states, "transitions": self.transitions, "traces": self.traces,
                "nontrivial": self.nontrivial, "undecided": self.undecided,
                "outcomes": list(self.outcomes), "samples": self.samples,
                "failures": self.failures, "nfail": self.nfail, "extra": dict(self.extra)}


def digest(obj):
    return hashlib.sha1(json.dumps(obj, sort_keys=True, default=_jsonable).encode()).hexdigest()


def _jsonable(o):
    import numpy as np
    if isinstance(o, np.ndarray):
        return o.tolist()
    if isinstance(o, (np.integer,)):
        return int(o)
    if isinstance(o, (np.floating,)):
        return float(o)
    if isinstance(o, (np.bool_,)):
        return bool(o)
    if isinstance(o, (set, frozenset)):
        return sorted(_jsonable(x) if not isinstance(x, (int, float, str)) else x for x in o)
    if isinstance(o, tuple):
        return list(o)
    if isinstance(o, bytes):
        return o.hex()
    return repr(o)


def dumps(obj, **kw):
    return json.dumps(obj, default=_jsonable, **kw)


# ----------------------------------------------------------------------------------------------

def load_check(pid):
    return importlib.import_module("mc.checks." + pid.lower())


def assert_repo():
    import sempler
    f = os.path.realpath(sempler.__file__)
    repo = os.path.realpath(os.environ.get("VERIF_REPO", "/repo")) + "/"
    if not f.startswith(repo):
        print("HARNESS-ERROR: sempler imported from %s, not from %s" % (f, repo))
        sys.exit(2)


def repo_head():
    try:
        import subprocess
        repo = os.environ.get("VERIF_REPO", "/repo")
        h = subprocess.run(["git", "-C", repo, "rev-parse", "--short", "HEAD"], capture_output=True,
                           text=True, timeout=10).stdout.strip()
        d = subprocess.run(["git", "-C", repo, "status", "--porcelain", "--untracked-files=no"],
                           capture_output=True, text=True, timeout=10).stdout.strip()
        return h + ("+dirty" if d else "")
    except Exception:
        return "unknown"


_MODULE = None


def _library_frames(tb):
    repo = os.path.realpath(os.environ.get("VERIF_REPO", "/repo")) + "/"
    return [f for f in traceback.extract_tb(tb) if os.path.realpath(f.filename).startswith(repo)]


def _worker(unit):
    try:
        r = _MODULE.run_unit(unit)
        if r.get("failures"):
            small = unit if len(dumps(unit)) < 20000 else None
            for f in r["failures"]:
                f["unit"] = small          # lets the runner re-execute the whole unit if the single case is history-dependent
        return r
    except BaseException as e:
        # An exception that escaped from (or through) library code on an in-scope input is a verdict about the
        # library - "the call did not do what the property says" - not a defect of the machinery.  Everything
        # else (exceptions raised purely inside /verif, TapeError) is a harness error.
        lib = _library_frames(e.__traceback__)
        if lib and type(e).__name__ != "TapeError" and isinstance(e, Exception):
            where = "%s:%d in %s" % (os.path.basename(lib[-1].filename), lib[-1].lineno, lib[-1].name)
            return {"states": 1, "transitions": 1, "nfail": 1,
                    "failures": [{"kind": "unit-crash", "case": unit, "sig": "uncaught-library-exception:%s" % type(e).__name__,
                                  "msg": "library code raised %r at %s while exploring work unit %s" % (e, where, dumps(unit)[:300])}]}
        return {"harness_error": traceback.format_exc(), "unit": unit}


def _replay_unit_crash(mod, unit):
    r = _worker(unit)
    return [(f["sig"], f["msg"]) for f in r.get("failures", []) if f["kind"] == "unit-crash"]


def _replay_entry(kc):
    kind, case = kc
    if kind == "unit-crash":
        return _replay_unit_crash(_MODULE, case)
    if kind == "unit-replay":
        # a failure that only shows after the earlier cases of its work unit (hidden state in the library): the unit is the replay
        r = _worker(case["unit"])
        same = [(f["sig"], f["msg"]) for f in r.get("failures", []) if f["sig"] == case["sig"]]
        return same or [(f["sig"], f["msg"]) for f in r.get("failures", [])]
    if kind == "whole-run":
        # last resort for failures that depend on state carried across work units: every unit, in order, in one fresh process
        if hasattr(_MODULE, "prepare"):
            _MODULE.prepare(case["tier"], case["seed"])
        out = []
        for u in _MODULE.units(case["tier"], case["seed"]):
            r = _worker(u)
            out += [(f["sig"], f["msg"]) for f in r.get("failures", [])]
            if len(out) >= 3:
                break
        return out
    return _MODULE.replay(kind, case)


def replay_isolated(kind, case):
    """Re-executes one failing case in a freshly forked child of the (still pristine) runner process, so that hidden
    state left behind by an earlier replay (caches, module globals) cannot mask or fake a failure."""
    ctx = mp.get_context("fork")
    with ctx.Pool(1) as pool:
        return pool.apply(_replay_entry, ((kind, case),))


def load_findings():
    path = os.path.join(ROOT, "known_findings.json")
    if not os.path.exists(path):
        return {"known": [], "fixed": []}
    with open(path) as fh:
        return json.load(fh)


def write_evidence(pid, ev):
    os.makedirs(os.path.join(OUT, "evidence"), exist_ok=True)
    path = os.path.join(OUT, "evidence", pid + ".json")
    tmp = path + ".tmp"
    with open(tmp, "w") as fh:
        fh.write(dumps(ev, indent=1))
    os.replace(tmp, path)
    return path


def do_replay(mod, path):
    with open(path) as fh:
        rec = json.load(fh)
    fails = _replay_entry((rec["kind"], rec["case"]))
    print("replay %s kind=%s" % (path, rec["kind"]))
    print("case: " + dumps(rec["case"])[:4000])
    print("recorded: [%s] %s" % (rec.get("sig"), rec.get("msg")))
    if fails:
        for sig, msg in fails:
            print("observed: [%s] %s" % (sig, msg))
        print("VIOLATION property=%s replay=%s" % (rec["property"], path))
        return 1
    print("observed: the recorded case passes on the current tree")
    return 0


def main(argv=None):
    global _MODULE
    ap = argparse.ArgumentParser()
    ap.add_argument("pid")
    ap.add_argument("tier", nargs="?", default="quick")
    ap.add_argument("--replay")
    ap.add_argument("--procs", type=int, default=int(os.environ.get("VERIF_PROCS", "0")) or min(16, os.cpu_count() or 1))
    args = ap.parse_args(argv)
    pid = args.pid.upper()
    tier = os.environ.get("VERIF_TIER") or args.tier
    if tier not in ("quick", "thorough"):
        print("HARNESS-ERROR: tier must be quick or thorough")
        return 2
    seed = int(os.environ.get("VERIF_SEED", "0") or 0)

    t0 = time.time()
    assert_repo()
    mod = load_check(pid)
    _MODULE = mod
    if args.replay:
        return do_replay(mod, args.replay)

    if hasattr(mod, "prepare"):
        mod.prepare(tier, seed)
    units = list(mod.units(tier, seed))
    agg = {"states": 0, "transitions": 0, "traces": 0, "nontrivial": 0, "undecided": 0, "nfail": 0}
    outcomes, samples, failures, extra = set(), [], [], Counter()
    harness_errors = []

    def absorb(r):
        if "harness_error" in r:
            harness_errors.append(r)
            return
        for k in agg:
            agg[k] += r.get(k, 0)
        outcomes.update(r.get("outcomes", ()))
        samples.extend(r.get("samples", ()))
        failures.extend(r.get("failures", ()))
        extra.update(r.get("extra", {}))

    if args.procs <= 1 or len(units) <= 1:
        for u in units:
            absorb(_worker(u))
    else:
        ctx = mp.get_context("fork")
        with ctx.Pool(min(args.procs, len(units))) as pool:
            for r in pool.imap_unordered(_worker, units, chunksize=1):
                absorb(r)

    # regression records: the smallest failing case of every defect that was repaired, re-executed on
    # every run so that the violation is reported again if it ever returns
    regdir = os.path.join(ROOT, "regressions", pid)
    nreg = 0
    if os.path.isdir(regdir):
        for fn in sorted(os.listdir(regdir)):
            if fn.endswith(".json"):
                with open(os.path.join(regdir, fn)) as fh:
                    rec = json.load(fh)
                nreg += 1
                for sig, msg in replay_isolated(rec["kind"], rec["case"]):
                    failures.append({"kind": rec["kind"], "case": rec["case"], "sig": sig, "msg": msg})
                    agg["nfail"] += 1
    extra["regression_records_replayed"] = nreg

    if harness_errors:
        print("HARNESS-ERROR: %d work unit(s) raised inside the machinery" % len(harness_errors))
        print(harness_errors[0]["harness_error"])
        print("unit: " + dumps(harness_errors[0]["unit"])[:1000])
        return 2

    # cross-execution obligations (e.g. "every node takes every position")
    final_cov = {}
    if hasattr(mod, "finalize"):
        ff, final_cov = mod.finalize(dict(extra), tier, seed)
        failures.extend(ff)
        agg["nfail"] += len(ff)

    # ---- confirm, classify and report failures
    findings = load_findings()
    known = [k for k in findings.get("known", []) if k.get("property") == pid]
    failures.sort(key=lambda f: (len(dumps(f["case"])), dumps(f["case"])))
    seen, confirmed, flaky = set(), [], []
    for f in failures:
        key = digest([f["kind"], f["case"]])
        if key in seen:
            continue
        seen.add(key)
        if f["kind"] == "aggregate":          # computed from the whole run, nothing to re-execute
            confirmed.append((key, f))
            continue
        if len(confirmed) >= 4 * MAX_REPORTED:
            continue
        again = replay_isolated(f["kind"], f["case"])
        if again:
            confirmed.append((key, f))
        elif f.get("unit") is not None and replay_isolated("unit-replay", {"unit": f["unit"], "sig": f["sig"]}):
            f = dict(f, kind="unit-replay", case={"unit": f["unit"], "sig": f["sig"], "first_case": f["case"]},
                     msg=f["msg"] + " [only reproducible after the earlier cases of its work unit: the library keeps hidden state between calls]")
            confirmed.append((key, f))
        else:
            flaky.append(f)
    if flaky and not confirmed:
        # nothing reproduced case by case or unit by unit: re-run the whole check sequentially in one fresh process
        whole = replay_isolated("whole-run", {"tier": tier, "seed": seed})
        if whole:
            f0 = flaky[0]
            confirmed.append((digest(["whole-run", tier, seed]), {"kind": "whole-run", "case": {"tier": tier, "seed": seed, "first_case": f0["case"]},
                              "sig": whole[0][0], "msg": whole[0][1] + " [reproducible only by running the work units in sequence in one process: the library keeps hidden state between calls]"}))
            flaky = []
    if flaky and confirmed:
        print("note: %d failing case(s) were history-dependent and did not reproduce in isolation; %d others were confirmed" % (len(flaky), len(confirmed)))
        flaky = []
    if flaky:
        print("HARNESS-ERROR: %d failing case(s) did not fail again when replayed (nondeterminism not owned)" % len(flaky))
        print(dumps(flaky[0])[:2000])
        return 2

    head = repo_head()
    os.makedirs(os.path.join(OUT, "replays", pid), exist_ok=True)
    new, known_hit = [], {}
    for key, f in confirmed:
        k = next((k for k in known if k.get("sig") == f["sig"]), None)
        if k is not None:
            known_hit.setdefault(k["sig"], (k, f))
        else:
            new.append((key, f))
    for sig, (k, f) in known_hit.items():
        print("KNOWN-FINDING: property=%s %s" % (pid, k.get("what", sig)))
    reported = 0
    per_sig = Counter()
    for key, f in new:
        if reported >= MAX_REPORTED or per_sig[f["sig"]] >= 3:
            continue
        per_sig[f["sig"]] += 1
        path = os.path.join(OUT, "replays", pid, key[:16] + ".json")
        with open(path, "w") as fh:
            fh.write(dumps({"property": pid, "kind": f["kind"], "case": f["case"], "sig": f["sig"],
                            "msg": f["msg"], "tier": tier, "repo_head": head,
                            "how_to": "bin/check %s --replay %s" % (pid, path)}, indent=1))
        print("  [%s] %s" % (f["sig"], f["msg"][:600]))
        print("VIOLATION property=%s replay=%s" % (pid, path))
        reported += 1

    # ---- evidence
    desc = mod.describe(tier, seed)
    rot = seed % max(1, len(samples))
    samples = (samples[rot:] + samples[:rot])[:MAX_SAMPLES]
    cov = {
        "states": agg["states"], "transitions": agg["transitions"],
        "traces_validated_against_impl": agg["traces"],
        "samples": samples or [{"note": "no case explored"}],
        "evaluations": agg["states"], "distinct_nontrivial": agg["nontrivial"],
        "rule": desc.get("rule", ""),
        # never call a capped run exhaustive: any stage explored only to a deviation bound, capped, abandoned or not recognised turns the flag off
        "exhaustive": bool(desc.get("exhaustive", False)) and agg["undecided"] == 0 and not any(
            v and ("deviation<=" in k or "capped" in k or "not_recognised" in k) for k, v in extra.items()),
        "bounds": desc.get("bounds", {}), "distinct_outcomes": len(outcomes),
        "undecided": agg["undecided"], "work_units": len(units),
        "stages": {k: v for k, v in sorted(extra.items()) if not k.startswith("fail:")},
        "failure_signatures": {k[5:]: v for k, v in sorted(extra.items()) if k.startswith("fail:")},
        "technique": desc.get("technique", ""),
    }
    cov.update(final_cov or {})
    if "E2" in getattr(mod, "MANIFEST", {}).get("engine", ""):
        # the only model in the E2 checks is the RNG facade: re-bind it to the real numpy on every run and report the count
        from mc.env import conformance
        cov["facade_conformance_traces_against_real_numpy"] = conformance.run()
    ev = {"property_id": pid, "tier": tier, "seed": seed, "level": "model_checking", "coverage": cov,
          "assumptions": desc.get("assumptions", []), "wall_s": round(time.time() - t0, 2),
          "violations": len(new), "known_findings_hit": len(known_hit), "repo_head": head}
    write_evidence(pid, ev)
    print("%s %s: states=%d transitions=%d traces=%d nontrivial=%d outcomes=%d undecided=%d violations=%d known=%d wall=%.1fs"
          % (pid, tier, agg["states"], agg["transitions"], agg["traces"], agg["nontrivial"], len(outcomes),
             agg["undecided"], len(new), len(known_hit), time.time() - t0))
    if agg["undecided"] * 4 > max(1, agg["traces"]):
        # not a verdict about the library: the check was silent but decided less than it is built to (see DESIGN 10.8)
        print("NOTE property=%s %d of %d executions undecided: this tree consumes randomness in a way the checker's RNG facade / structure "
              "recognition does not model; the run is not exhaustive and coverage is reduced" % (pid, agg["undecided"], agg["traces"]))
    return 1 if new else 0


if __name__ == "__main__":
    sys.exit(main())
