"""Input alphabets shared by the checks (E1 small-scope input explorer).

Weight labelings turn a 0/1 pattern into "real weight matrices of any sign":
  bin     0/1
  neg     every directed edge has weight -1
  cancel  +-1 (and one -2) such that every column with >= 2 parents sums to 0, single parents -1
  generic distinct signed dyadic magnitudes
"""
import numpy as np

from mc.refmodel import graphs as G

LABELINGS = ("bin", "neg", "cancel", "generic")
_GENERIC = [0.5, -1.5, 2.0, -0.75, 1.25, -3.0, 0.25, -2.5, 1.75, -0.5, 3.5, -1.25, 2.25, -0.375, 1.5]


def dag_matrix(p, ch, labeling="bin", dtype=float):
    """numpy matrix of the DAG with children masks ch under a labeling."""
    M = np.zeros((p, p), dtype=float)
    pa = G.parents(p, ch)
    e = 0
    for j in range(p):
        ps = G.bits(pa[j])
        k = len(ps)
        for t, i in enumerate(ps):
            if labeling == "bin":
                w = 1
            elif labeling == "neg":
                w = -1
            elif labeling == "cancel":
                if k == 1:
                    w = -1
                elif k % 2 == 0:
                    w = 1 if t % 2 == 0 else -1
                else:
                    w = (1, 1, -2)[t] if t < 3 else (1 if t % 2 == 1 else -1)
            elif labeling == "generic":
                w = _GENERIC[e % len(_GENERIC)]
            elif labeling == "int":
                w = (-2, 1, 3)[e % 3]
            elif labeling == "tiny":                  # an edge is an entry != 0, however small (down to a subnormal)
                w = (1e-13, -1e-15, 1e-200, -3e-310)[e % 4]
            elif labeling.startswith("signs:"):       # every +-1 assignment: bit e of the mask set => weight -1
                w = -1 if (int(labeling[6:]) >> e) & 1 else 1
            else:
                raise ValueError(labeling)
            M[i, j] = w
            e += 1
    if dtype is int:
        return M.astype(np.int64)
    return M.astype(dtype)


def pdag_matrix(p, ch, und, dtype=int):
    M = np.zeros((p, p), dtype=dtype)
    for i in range(p):
        for j in G.bits(ch[i] | und[i]):
            M[i, j] = 1
    return M


def chunks(lo, hi, n):
    """Split [lo, hi) into about n contiguous ranges."""
    n = max(1, min(n, hi - lo))
    step = (hi - lo + n - 1) // n
    return [(a, min(hi, a + step)) for a in range(lo, hi, step)]


def split_list(items, n):
    n = max(1, min(n, len(items)))
    step = (len(items) + n - 1) // n
    return [items[a:a + step] for a in range(0, len(items), step)]


# ------------------------------------------------------------------------------------------------
# Gaussian alphabet (C05, C06): Sigma = L L^T, L lower triangular, off-diagonals in {-1,0,1},
# diagonal in {1,2}  =>  integer, positive definite, det = prod(diag)^2 >= 1.

def lower_factors(p, diag_choices=None):
    import itertools
    offs = [(i, j) for i in range(p) for j in range(i)]
    diags = list(itertools.product((1, 2), repeat=p)) if diag_choices is None else diag_choices
    for dg in diags:
        for vals in itertools.product((-1, 0, 1), repeat=len(offs)):
            L = [[0] * p for _ in range(p)]
            for i in range(p):
                L[i][i] = dg[i]
            for (i, j), v in zip(offs, vals):
                L[i][j] = v
            yield L


def sigma_of(L):
    p = len(L)
    return [[sum(L[i][k] * L[j][k] for k in range(p)) for j in range(p)] for i in range(p)]


MEANS = {1: [[0], [-1.5]], 2: [[0, 0], [1, -2.5]], 3: [[0, 0, 0], [1, -2.5, 0.75]], 4: [[0, 0, 0, 0], [1, -2.5, 0.75, 3]]}


def ordered_disjoint_pairs(p, min_y=1):
    """All (Y, X): ordered sequences of distinct indices, Y non-empty, disjoint."""
    import itertools
    out = []
    idx = range(p)
    for ky in range(min_y, p + 1):
        for Y in itertools.permutations(idx, ky):
            rest = [i for i in idx if i not in Y]
            for kx in range(0, len(rest) + 1):
                for X in itertools.permutations(rest, kx):
                    out.append((list(Y), list(X)))
    return out
