"""Self-tests of the reference models (known counts) and, when present, the RNG facade conformance pass."""
import sys


def main():
    from mc.refmodel import graphs as G
    counts = [len(G.dag_codes(p)) for p in (1, 2, 3, 4)]
    assert counts == [1, 3, 25, 543], counts
    # number of Markov equivalence classes (OEIS A007984): 1, 2, 11, 185
    classes = [len(G.dag_groups(p)) for p in (1, 2, 3, 4)]
    assert classes == [1, 2, 11, 185], classes
    npdag = [sum(1 for _ in G.pdag_code_range(p, 0, 4 ** G.npairs(p))) for p in (1, 2, 3, 4)]
    assert npdag == [1, 4, 62, 3608], npdag
    # table-based and orientation-based extension sets agree on every PDAG up to p = 4
    for p in (2, 3, 4):
        for code, ch, und in G.pdag_code_range(p, 0, 4 ** G.npairs(p)):
            a = sorted(G.extensions(p, ch, und))
            b = sorted(G.extensions_by_orientation(p, ch, und))
            assert a == b, (p, code)
    assert G.pattern_has_cycle([[0, -1], [-1, 0]]) and G.pattern_has_cycle([[-1]])
    assert not G.pattern_has_cycle([[0, 0, 1], [0, 0, -1], [0, 0, 0]])
    print("selftest: reference graph model ok (DAG counts %s, classes %s, PDAG counts %s)" % (counts, classes, npdag))
    try:
        from mc.refmodel import gauss
        gauss.selftest()
        print("selftest: exact Gaussian model ok")
    except ImportError:
        pass
    try:
        from mc.env import conformance
    except ImportError:
        conformance = None
    if conformance is not None:
        n = conformance.run()
        print("selftest: RNG facade conformance ok (%d real-numpy traces inside the facade's menus)" % n)
    return 0


if __name__ == "__main__":
    sys.exit(main())
