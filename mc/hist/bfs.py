"""E3 - explicit-state history explorer on live objects.

A *state* is reached by an operation history executed on fresh objects from a fixed initial state.
`canon(ctx)` digests everything that can influence the future: numpy's global Mersenne state, every
instance attribute of the live model objects, the __defaults__ of their methods (mutable defaults
are hidden state), module globals of sempler.* and the caller-owned objects handed to the library.

Two searches are provided:
  * `bfs(...)`: breadth-first with deduplication on the canonical state (the brief's idiom: a state
    is re-entered by replaying the shortest history that reaches it);
  * `all_histories(...)`: every history up to a depth, *without* deduplication, so that the verdict
    does not rest on the state hash.
"""
import hashlib
import itertools
import types

import numpy as np


def digest_value(v, h=None, depth=0):
    """Canonical bytes of a value: arrays by dtype+shape+bytes, callables by identity-free name,
    containers recursively (dicts and sets sorted)."""
    top = h is None
    if top:
        h = hashlib.sha1()
    if depth > 8:
        h.update(b"<deep>")
    elif isinstance(v, np.ndarray):
        h.update(b"nd" + str(v.dtype).encode() + str(v.shape).encode())
        h.update(np.ascontiguousarray(v).tobytes() if v.dtype != object else repr(v.tolist()).encode())
    elif isinstance(v, (np.generic,)):
        h.update(b"ns" + str(v.dtype).encode() + v.tobytes())
    elif isinstance(v, (bool, int, float, str, bytes, type(None), complex)):
        h.update(repr((type(v).__name__, v)).encode())
    elif isinstance(v, (list, tuple)):
        h.update(b"[" if isinstance(v, list) else b"(")
        for x in v:
            digest_value(x, h, depth + 1)
            h.update(b",")
        h.update(b"]")
    elif isinstance(v, dict):
        h.update(b"{")
        for k in sorted(v, key=repr):
            h.update(repr(k).encode() + b":")
            digest_value(v[k], h, depth + 1)
        h.update(b"}")
    elif isinstance(v, (set, frozenset)):
        h.update(b"set" + repr(sorted(v, key=repr)).encode())
    elif isinstance(v, (types.FunctionType, types.BuiltinFunctionType, types.MethodType)):
        h.update(b"fn" + getattr(v, "__qualname__", repr(type(v))).encode())
        for cell in (getattr(v, "__closure__", None) or ()):
            try:
                digest_value(cell.cell_contents, h, depth + 1)
            except ValueError:
                pass
    elif hasattr(v, "__dict__"):
        h.update(b"obj" + type(v).__name__.encode())
        digest_value(vars(v), h, depth + 1)
    else:
        h.update(b"?" + type(v).__name__.encode())
    if top:
        return h.hexdigest()


def rng_state_digest():
    st = np.random.get_state()
    h = hashlib.sha1()
    h.update(str(st[0]).encode() + np.asarray(st[1]).tobytes() + repr(st[2:]).encode())
    return h.hexdigest()


def module_globals_digest(modules):
    h = hashlib.sha1()
    for m in modules:
        for k in sorted(vars(m)):
            v = vars(m)[k]
            if k.startswith("__") or isinstance(v, (types.ModuleType, type, types.FunctionType, types.BuiltinFunctionType)):
                continue
            h.update(k.encode())
            h.update(digest_value(v).encode())
    return h.hexdigest()


def defaults_digest(funcs):
    h = hashlib.sha1()
    for f in funcs:
        h.update(getattr(f, "__qualname__", "?").encode())
        h.update(digest_value(list(f.__defaults__ or ())).encode())
        h.update(digest_value(dict(f.__kwdefaults__ or {})).encode())
    return h.hexdigest()


def all_histories(alphabet, depth):
    """Every operation sequence of length 0..depth (simplest first)."""
    for d in range(depth + 1):
        for h in itertools.product(range(len(alphabet)), repeat=d):
            yield h


def bfs(n_ops, build, canon, max_depth, max_states=200000):
    """Breadth-first search with deduplication.  build(history) -> ctx (fresh objects, history replayed);
    canon(ctx) -> hashable.  Yields (history, ctx, is_new_state) for every transition taken; the
    caller evaluates the invariant on every *new* state.  Returns through the generator's
    StopIteration value: (states, transitions, max_depth_reached)."""
    ctx0 = build(())
    seen = {canon(ctx0)}
    frontier = [()]
    yield (), ctx0, True
    transitions = 0
    depth = 0
    while frontier and depth < max_depth and len(seen) < max_states:
        nxt = []
        for hist in frontier:
            for op in range(n_ops):
                h2 = hist + (op,)
                ctx = build(h2)
                transitions += 1
                k = canon(ctx)
                new = k not in seen
                if new:
                    seen.add(k)
                    nxt.append(h2)
                yield h2, ctx, new
        frontier = nxt
        depth += 1
    return len(seen), transitions, depth
