"""Reference model for graphs: plain Python on int bitmasks, no numpy, no call into sempler.

A (P)DAG on p labelled nodes is coded as an integer in base 4 over the pairs (i<j) in
lexicographic order: digit 0 = no edge, 1 = i->j, 2 = j->i, 3 = i-j.  Decoded form: two lists of
bitmasks, ch[i] (children of i through directed edges) and und[i] (undirected neighbours).
"""
from functools import lru_cache
from itertools import combinations


def pairs(p):
    return [(i, j) for i in range(p) for j in range(i + 1, p)]


def npairs(p):
    return p * (p - 1) // 2


def decode(p, code):
    ch = [0] * p
    und = [0] * p
    for (i, j) in pairs(p):
        d = code & 3
        code >>= 2
        if d == 1:
            ch[i] |= 1 << j
        elif d == 2:
            ch[j] |= 1 << i
        elif d == 3:
            und[i] |= 1 << j
            und[j] |= 1 << i
    return ch, und


def encode(p, ch, und):
    code = 0
    for k, (i, j) in enumerate(pairs(p)):
        if und[i] >> j & 1:
            d = 3
        elif ch[i] >> j & 1:
            d = 1
        elif ch[j] >> i & 1:
            d = 2
        else:
            d = 0
        code |= d << (2 * k)
    return code


def bits(m):
    out = []
    i = 0
    while m:
        if m & 1:
            out.append(i)
        m >>= 1
        i += 1
    return out


def popcount(m):
    return bin(m).count("1")


def parents(p, ch):
    pa = [0] * p
    for i in range(p):
        for j in bits(ch[i]):
            pa[j] |= 1 << i
    return pa


def is_acyclic(p, ch):
    """Kahn on bitmasks (independent of the library: works on the arc relation only)."""
    pa = parents(p, ch)
    remaining = (1 << p) - 1
    progress = True
    while remaining and progress:
        progress = False
        for i in range(p):
            if remaining >> i & 1 and not (pa[i] & remaining):
                remaining &= ~(1 << i)
                progress = True
    return remaining == 0


def pattern_has_cycle(M):
    """M: square list of lists of numbers. Arc i->j iff M[i][j] != 0 (self-loops and 2-cycles are
    cycles). Iterative colouring DFS."""
    p = len(M)
    succ = [[j for j in range(p) if M[i][j] != 0] for i in range(p)]
    colour = [0] * p
    for s in range(p):
        if colour[s]:
            continue
        stack = [(s, 0)]
        colour[s] = 1
        while stack:
            v, k = stack[-1]
            if k < len(succ[v]):
                stack[-1] = (v, k + 1)
                w = succ[v][k]
                if colour[w] == 1:
                    return True
                if colour[w] == 0:
                    colour[w] = 1
                    stack.append((w, 0))
            else:
                colour[v] = 2
                stack.pop()
    return False


def is_topological_order(M, order):
    """order lists every node exactly once and every arc of pattern M points forward."""
    p = len(M)
    try:
        order = [int(x) for x in order]
    except Exception:
        return False
    if sorted(order) != list(range(p)):
        return False
    pos = {v: k for k, v in enumerate(order)}
    return all(pos[i] < pos[j] for i in range(p) for j in range(p) if M[i][j] != 0)


def adjacency(p, ch, und):
    pa = parents(p, ch)
    return [ch[i] | pa[i] | und[i] for i in range(p)]


def vstructs(p, ch, und):
    """unshielded colliders i -> c <- j (directed edges), i < j, i and j not adjacent in any way."""
    pa = parents(p, ch)
    adj = adjacency(p, ch, und)
    out = set()
    for c in range(p):
        ps = bits(pa[c])
        for a, b in combinations(ps, 2):
            if not (adj[a] >> b & 1):
                out.add((a, c, b))
    return frozenset(out)


def to_matrix(p, ch, und):
    return [[1 if ((ch[i] | und[i]) >> j & 1) else 0 for j in range(p)] for i in range(p)]


def from_matrix(M):
    """Non-zero pattern of a PDAG matrix -> (p, ch, und). Diagonal ignored."""
    p = len(M)
    ch = [0] * p
    und = [0] * p
    for i in range(p):
        for j in range(p):
            if i != j and M[i][j] != 0:
                if M[j][i] != 0:
                    und[i] |= 1 << j
                else:
                    ch[i] |= 1 << j
    return p, ch, und


def reach(p, ch):
    """desc[i] = nodes reachable from i by >= 1 directed edge (strict), by Warshall on bitsets."""
    r = list(ch)
    for k in range(p):
        for i in range(p):
            if r[i] >> k & 1:
                r[i] |= r[k]
    return r


# ------------------------------------------------------------------------------------------------
# exhaustive spaces

def dag_codes(p):
    """All labelled DAGs on p nodes, simplest (fewest edges) first."""
    m = npairs(p)
    out = []

    def rec(k, code):
        if k == m:
            ch, _ = decode(p, code)
            if is_acyclic(p, ch):
                out.append(code)
            return
        for d in (0, 1, 2):
            rec(k + 1, code | d << (2 * k))
    rec(0, 0)
    out.sort(key=lambda c: (nedges(p, c), c))
    return out


def nedges(p, code):
    n = 0
    while code:
        if code & 3:
            n += 1
        code >>= 2
    return n


def pdag_code_range(p, lo, hi):
    """Codes in [lo, hi) whose directed part is acyclic (all PDAGs in the sense of the properties)."""
    for code in range(lo, hi):
        ch, und = decode(p, code)
        if is_acyclic(p, ch):
            yield code, ch, und


@lru_cache(maxsize=None)
def dag_groups(p):
    """Brute-force Markov equivalence: every DAG on p nodes grouped by (skeleton, v-structures)."""
    groups = {}
    for code in dag_codes(p):
        ch, und = decode(p, code)
        key = (tuple(adjacency(p, ch, und)), vstructs(p, ch, und))
        groups.setdefault(key, []).append(tuple(ch))
    return groups


def mec_of(p, ch):
    und = [0] * p
    key = (tuple(adjacency(p, ch, und)), vstructs(p, ch, und))
    return dag_groups(p)[key]


def extensions(p, ch, und):
    """Consistent extensions of the PDAG: DAGs with the same skeleton, the same v-structures and
    every directed edge of the PDAG kept."""
    key = (tuple(adjacency(p, ch, und)), vstructs(p, ch, und))
    cands = dag_groups(p).get(key, ())
    return [g for g in cands if all((g[i] & ch[i]) == ch[i] for i in range(p))]


def extensions_by_orientation(p, ch, und):
    """Same set, computed without the global table (any p): orient the undirected edges in all
    2^u ways, keep acyclic results with the PDAG's v-structures."""
    vs = vstructs(p, ch, und)
    uedges = [(i, j) for (i, j) in pairs(p) if und[i] >> j & 1]
    out = []
    for mask in range(1 << len(uedges)):
        g = list(ch)
        for k, (i, j) in enumerate(uedges):
            if mask >> k & 1:
                g[i] |= 1 << j
            else:
                g[j] |= 1 << i
        if is_acyclic(p, g) and vstructs(p, g, [0] * p) == vs:
            out.append(tuple(g))
    return out


def mec_by_orientation(p, ch):
    """MEC of a DAG for any p: orient the skeleton in all 2^e ways and filter."""
    adj = adjacency(p, ch, [0] * p)
    vs = vstructs(p, ch, [0] * p)
    edges = [(i, j) for (i, j) in pairs(p) if adj[i] >> j & 1]
    out = []
    for mask in range(1 << len(edges)):
        g = [0] * p
        for k, (i, j) in enumerate(edges):
            if mask >> k & 1:
                g[i] |= 1 << j
            else:
                g[j] |= 1 << i
        if is_acyclic(p, g) and vstructs(p, g, [0] * p) == vs:
            out.append(tuple(g))
    return out


def union_graph(p, dags):
    """Essential graph of a non-empty set of DAGs with a common skeleton: i->j directed when all
    members agree, undirected when both orientations occur."""
    anyc = [0] * p
    for g in dags:
        for i in range(p):
            anyc[i] |= g[i]
    ch = [0] * p
    und = [0] * p
    for i in range(p):
        for j in bits(anyc[i]):
            if anyc[j] >> i & 1:
                und[i] |= 1 << j
            else:
                ch[i] |= 1 << j
    return ch, und


def pattern_of_dag(p, g):
    return tuple(tuple(1 if g[i] >> j & 1 else 0 for j in range(p)) for i in range(p))


def pattern(M):
    """Non-zero pattern of anything matrix-like as a tuple of tuples of 0/1."""
    return tuple(tuple(1 if x != 0 else 0 for x in row) for row in M)


# ------------------------------------------------------------------------------------------------
# relations (C15)

def semi_directed_paths(p, ch, und, a, b):
    """All simple paths a = v0, ..., vk = b with v_t -> v_t+1 or v_t - v_t+1."""
    acc = [ch[i] | und[i] for i in range(p)]
    out = []

    def rec(v, path, used):
        if v == b:
            out.append(tuple(path))
            return
        for w in bits(acc[v] & ~used):
            rec(w, path + [w], used | 1 << w)
    rec(a, [a], 1 << a)
    return out


def chain_component(p, und, i):
    parent = list(range(p))

    def find(x):
        while parent[x] != x:
            parent[x] = parent[parent[x]]
            x = parent[x]
        return x
    for a in range(p):
        for b in bits(und[a]):
            ra, rb = find(a), find(b)
            if ra != rb:
                parent[ra] = rb
    r = find(i)
    return {x for x in range(p) if find(x) == r}


def subsets_of(mask_bits):
    out = []
    n = len(mask_bits)
    for m in range(1 << n):
        out.append([mask_bits[k] for k in range(n) if m >> k & 1])
    return out
