"""Exact reference model for Gaussians and linear SCMs: fractions.Fraction, no numpy linear algebra,
no call into sempler."""
from fractions import Fraction


def F(x):
    if isinstance(x, Fraction):
        return x
    if isinstance(x, bool):
        return Fraction(int(x))
    if isinstance(x, int):
        return Fraction(x)
    return Fraction(float(x))          # exact: every float is a dyadic rational


def vec(v):
    return [F(x) for x in v]


def mat(M):
    return [[F(x) for x in row] for row in M]


def eye(n):
    return [[Fraction(int(i == j)) for j in range(n)] for i in range(n)]


def matmul(A, B):
    n, m, k = len(A), len(B[0]) if B else 0, len(B)
    return [[sum((A[i][t] * B[t][j] for t in range(k)), Fraction(0)) for j in range(m)] for i in range(n)]


def matvec(A, v):
    return [sum((A[i][t] * v[t] for t in range(len(v))), Fraction(0)) for i in range(len(A))]


def transpose(A):
    return [list(r) for r in zip(*A)] if A else []


def block(M, rows, cols):
    return [[M[i][j] for j in cols] for i in rows]


def inv(M):
    """Gauss-Jordan with exact pivots; raises ZeroDivisionError on singular input."""
    n = len(M)
    A = [list(M[i]) + [Fraction(int(i == j)) for j in range(n)] for i in range(n)]
    for c in range(n):
        piv = next((r for r in range(c, n) if A[r][c] != 0), None)
        if piv is None:
            raise ZeroDivisionError("singular")
        A[c], A[piv] = A[piv], A[c]
        d = A[c][c]
        A[c] = [x / d for x in A[c]]
        for r in range(n):
            if r != c and A[r][c] != 0:
                f = A[r][c]
                A[r] = [x - f * y for x, y in zip(A[r], A[c])]
    return [row[n:] for row in A]


def det(M):
    n = len(M)
    A = [list(r) for r in M]
    d = Fraction(1)
    for c in range(n):
        piv = next((r for r in range(c, n) if A[r][c] != 0), None)
        if piv is None:
            return Fraction(0)
        if piv != c:
            A[c], A[piv] = A[piv], A[c]
            d = -d
        d *= A[c][c]
        for r in range(c + 1, n):
            f = A[r][c] / A[c][c]
            if f:
                A[r] = [x - f * y for x, y in zip(A[r], A[c])]
    return d


# ------------------------------------------------------------------------------------------------
# Gaussian operations

def marginal(mu, S, X):
    return [mu[i] for i in X], block(S, X, X)


def conditional(mu, S, Y, X, x):
    """Law of Y | X = x through the precision matrix of the (Y, X)-marginal (a different derivation
    from the Schur complement the library uses)."""
    Y, X = list(Y), list(X)
    if not X:
        return marginal(mu, S, Y)
    Z = Y + X
    K = inv(block(S, Z, Z))
    ny = len(Y)
    Kyy = block(K, range(ny), range(ny))
    Kyx = block(K, range(ny), range(ny, len(Z)))
    C = inv(Kyy)
    dx = [F(x[k]) - mu[X[k]] for k in range(len(X))]
    shift = matvec(C, matvec(Kyx, dx))
    mean = [mu[Y[k]] - shift[k] for k in range(ny)]
    return mean, C


def regress(mu, S, y, Sset):
    """Population least squares of variable y on the (distinct) regressors Sset -> (coefs[p], intercept)."""
    p = len(mu)
    Sl = list(Sset)
    coefs = [Fraction(0)] * p
    if Sl:
        b = matvec(inv(block(S, Sl, Sl)), [S[s][y] for s in Sl])
        for s, v in zip(Sl, b):
            coefs[s] = v
    intercept = mu[y] - sum((coefs[i] * mu[i] for i in range(p)), Fraction(0))
    return coefs, intercept


def cond_var(S, y, Sset):
    Sl = list(Sset)
    if y in Sl:
        return Fraction(0)
    if not Sl:
        return S[y][y]
    b = matvec(inv(block(S, Sl, Sl)), [S[s][y] for s in Sl])
    return S[y][y] - sum((b[k] * S[Sl[k]][y] for k in range(len(Sl))), Fraction(0))


# ------------------------------------------------------------------------------------------------
# linear SCM

def topo_order(W):
    """Topological order of the non-zero pattern (own implementation)."""
    p = len(W)
    indeg = [sum(1 for i in range(p) if W[i][j] != 0) for j in range(p)]
    done, order = [False] * p, []
    while len(order) < p:
        j = next((j for j in range(p) if not done[j] and indeg[j] == 0), None)
        if j is None:
            raise ValueError("cyclic")
        done[j] = True
        order.append(j)
        for k in range(p):
            if W[j][k] != 0:
                indeg[k] -= 1
    return order


def scm_law(W, means, variances, do=None, noise=None, shift=None):
    """Exact law of the intervened linear SCM X_j = sum_i W[i][j] X_i + N_j.

    do / noise / shift: {target: (mean, var)}.  do overrides noise overrides shift (which adds).
    Solved by forward substitution along the oracle's own topological order: each X_j is an exact
    affine combination of the independent noise terms.
    Returns (mean, cov, W', mu', var')."""
    p = len(W)
    W = mat(W)
    mu = vec(means)
    var = vec(variances)
    do, noise, shift = do or {}, noise or {}, shift or {}
    for t in range(p):
        if t in do:
            mu[t], var[t] = F(do[t][0]), F(do[t][1])
            for i in range(p):
                W[i][t] = Fraction(0)
        elif t in noise:
            mu[t], var[t] = F(noise[t][0]), F(noise[t][1])
        elif t in shift:
            mu[t], var[t] = mu[t] + F(shift[t][0]), var[t] + F(shift[t][1])
    coef = [None] * p                      # coef[j][k]: weight of noise term N_k in X_j
    for j in topo_order(W):
        c = [Fraction(0)] * p
        c[j] = Fraction(1)
        for i in range(p):
            if W[i][j] != 0:
                for k in range(p):
                    c[k] += W[i][j] * coef[i][k]
        coef[j] = c
    mean = [sum((coef[j][k] * mu[k] for k in range(p)), Fraction(0)) for j in range(p)]
    cov = [[sum((coef[j][k] * coef[l][k] * var[k] for k in range(p)), Fraction(0)) for l in range(p)] for j in range(p)]
    return mean, cov, W, mu, var


# ------------------------------------------------------------------------------------------------
# comparison policy: |got - exact| <= tol * max(1, ||exact||_inf)

def close_vec(got, exact, tol=1e-9):
    got = [float(x) for x in got]
    if len(got) != len(exact):
        return False
    scale = max([1.0] + [abs(float(e)) for e in exact])
    return all(abs(g - float(e)) <= tol * scale for g, e in zip(got, exact))


def close_mat(got, exact, tol=1e-9):
    got = [[float(x) for x in row] for row in got]
    if len(got) != len(exact) or any(len(r) != len(e) for r, e in zip(got, exact)):
        return False
    scale = max([1.0] + [abs(float(e)) for row in exact for e in row])
    return all(abs(g - float(e)) <= tol * scale for r, er in zip(got, exact) for g, e in zip(r, er))


def close_num(got, exact, tol=1e-9, scale=1.0):
    return abs(float(got) - float(exact)) <= tol * max(1.0, abs(float(exact)), scale)


def fl(M):
    """Fractions -> floats, for messages."""
    if isinstance(M, list):
        return [fl(x) for x in M]
    return float(M)


def selftest():
    S = mat([[2, 1, 0], [1, 2, 1], [0, 1, 2]])
    I = matmul(S, inv(S))
    assert I == eye(3)
    assert det(S) == 4
    mu = vec([1, 2, 3])
    # conditional via precision == Schur complement, on one case
    m, C = conditional(mu, S, [0], [1], [3])
    assert m == [F(1) + Fraction(1, 2) * 1] and C == [[Fraction(3, 2)]], (m, C)
    # chain SCM 0 -> 1 -> 2 with weights 2, -1
    mean, cov, *_ = scm_law([[0, 2, 0], [0, 0, -1], [0, 0, 0]], [1, 0, 0], [1, 1, 1])
    assert mean == [1, 2, -2] and cov[2][2] == 4 + 1 + 1 and cov[0][2] == -2
    c, b0 = regress(mean, cov, 2, [1])
    assert c[1] == -1 and b0 == 0 and cond_var(cov, 2, [1]) == 1
