"""E2 - the harness owns numpy's RNG.

While a `Tape` is active, every way the library can reach randomness through `numpy.random`
(module-level legacy functions, `default_rng`, `RandomState(...)`, `Generator(...)`) is served by
`TapeRandomState` / `TapeGenerator`.  Every base draw is a *cell* addressed by (stream, index):

  * the global legacy stream after `seed(s)` is ("G", s) restarted at index 0; unseeded it is ("G", None, k);
  * `default_rng(s)` is ("L", s) at index 0 for every generator created from that seed; an unseeded
    generator is a fresh stream ("L", None, k); `default_rng(gen)` returns gen.

Two draws get the same answer iff they have the same address and the same kind/menu - numpy's
determinism contract - so "same seed => same result" and "different sources => independent cells"
are structural facts visible in `Tape.trace`.

Discrete / uniform cells are *choice points*: the answer is an index into the cell's menu, taken
from `answers` (in order of first occurrence of new addresses; 0 afterwards).  Standard-normal cells
are not branched: their values come from `normal_values` {cell id: value} (default 0.0) - basis mode.
Anything the facade does not model is delegated to a deterministically seeded real generator and
counted in `Tape.unmodelled`.
"""
import math
import warnings

import numpy as np

_RS, _GEN, _PCG64 = np.random.RandomState, np.random.Generator, np.random.PCG64
_REAL = {"RandomState": np.random.RandomState, "Generator": np.random.Generator, "default_rng": np.random.default_rng,
         "PCG64": np.random.PCG64, "BitGenerator": np.random.BitGenerator, "SeedSequence": np.random.SeedSequence}
_ACTIVE = None
_LEGACY_NAMES = ["seed", "standard_normal", "normal", "randn", "multivariate_normal", "uniform", "random", "random_sample",
                 "ranf", "sample", "rand", "laplace", "choice", "permutation", "shuffle", "randint", "get_state", "set_state"]

EPS = 2.0 ** -53
TOP = 1.0 - EPS


class TapeError(Exception):
    """Nondeterminism not owned / replay divergence: a harness error, never a property verdict."""


class TapeBudget(BaseException):
    """One execution consumed more than Tape.max_cells draws (e.g. a retry-until loop that never terminates under the
    explorer's default answers): the execution is abandoned and counted as undecided - the explicit horizon every
    harness needs.  A BaseException, so that neither the library nor a check's `except Exception` swallows it."""


BUDGET_EVENTS = [0]


def laplace_quantile(u, loc, scale):
    if u < 0.5:
        return loc + scale * math.log(2 * u) if u > 0 else -math.inf
    return loc - scale * math.log(2 * (1 - u))


class Tape:
    def __init__(self, answers=(), normal_values=None, uniform_menu=(0.0, 0.5, TOP), menu_policy=None, max_menu=720, wide_int_menu=None):
        self.answers = list(answers)
        # integers over a range wider than max_menu (seed derivation): None -> delegated and counted as unmodelled; else a tuple
        # of fractions of the range, the cell is a choice among those representatives
        self.wide_int_menu = wide_int_menu
        self.normal_values = dict(normal_values or {})
        self.uniform_menu = tuple(uniform_menu)
        self.menu_policy = menu_policy
        self.max_menu = max_menu
        self.max_cells = 2000
        self.trace = []            # every cell in order of occurrence (repeats of an address included)
        self.points = []           # choice points (new addresses only): dicts with menu size and choice
        self.memo = {}             # address -> (signature, answer)
        self.normal_ids = {}       # address -> cell id (order of first occurrence)
        self.unmodelled = 0
        self.unmodelled_names = []
        self.fresh = 0
        self.calls = []            # API-level log: (api, stream)
        self._next = 0
        self.global_stream = ("G", None, 0)
        self.global_idx = 0

    # ---- stream bookkeeping
    def fresh_stream(self, tag):
        self.fresh += 1
        return (tag, None, self.fresh)

    # ---- cells
    def choose(self, stream_obj, kind, n, info=None):
        """A discrete choice among n alternatives at the next address of stream_obj. Returns index."""
        if len(self.trace) >= self.max_cells:
            raise TapeBudget("more than %d random draws in one execution" % self.max_cells)
        addr = (stream_obj.stream, stream_obj.idx)
        stream_obj.idx += 1
        sig = (kind, n)
        if addr in self.memo and self.memo[addr][0] == sig:
            k = self.memo[addr][1]
            new = False
        else:
            if n <= 0:
                raise ValueError("empty menu")
            if self._next < len(self.answers):
                k = self.answers[self._next]
                if not (0 <= k < n):
                    raise TapeError("replayed answer %r outside the menu of size %d at choice point %d (%s)" % (k, n, self._next, kind))
            else:
                k = 0
            self._next += 1
            self.memo[addr] = (sig, k)
            self.points.append({"kind": kind, "menu": n, "choice": k, "addr": addr})
            new = True
        cell = {"kind": kind, "addr": addr, "menu": n, "choice": k, "new": new}
        if info:
            cell.update(info)
        self.trace.append(cell)
        return k, cell

    def uniform_cell(self, stream_obj, lo, hi):
        lo, hi = float(lo), float(hi)
        if self.menu_policy is not None:
            menu = self.menu_policy("uniform", lo, hi)
        else:
            menu = self.uniform_menu
        if lo == hi:
            menu = (0.0,)
        k, cell = self.choose(stream_obj, "uniform", len(menu), {"lo": lo, "hi": hi})
        f = float(menu[k])
        v = lo + (hi - lo) * f
        cell["frac"] = f
        cell["value"] = v
        return v

    def normal_cell(self, stream_obj):
        if len(self.trace) >= self.max_cells:
            raise TapeBudget("more than %d random draws in one execution" % self.max_cells)
        addr = (stream_obj.stream, stream_obj.idx)
        stream_obj.idx += 1
        if addr not in self.normal_ids:
            self.normal_ids[addr] = len(self.normal_ids)
        cid = self.normal_ids[addr]
        v = float(self.normal_values.get(cid, 0.0))
        self.trace.append({"kind": "normal", "addr": addr, "cell": cid, "value": v})
        return v

    def note_unmodelled(self, name):
        self.unmodelled += 1
        self.unmodelled_names.append(name)

    # ---- activation
    def __enter__(self):
        global _ACTIVE
        if _ACTIVE is not None:
            raise TapeError("nested tapes")
        _ACTIVE = self
        _install(self)
        return self

    def __exit__(self, *exc):
        global _ACTIVE
        _uninstall()
        _ACTIVE = None
        return False

    def n_normal(self):
        return len(self.normal_ids)


# ----------------------------------------------------------------------------------------------
# shared draw logic (mixed into both facades)

def _shape(size):
    if size is None:
        return None
    if isinstance(size, (int, np.integer)):
        return (int(size),)
    return tuple(int(s) for s in size)


def _fill(shape, f):
    if shape is None:
        return f()
    n = int(np.prod(shape)) if len(shape) else 1
    out = np.empty(n, dtype=float)
    for i in range(n):
        out[i] = f()
    return out.reshape(shape)


class _Draws:
    """Methods common to TapeRandomState and TapeGenerator; `self.stream`, `self.idx`, `self.tape`."""

    def _bshape(self, size, *params):
        if size is not None:
            return _shape(size)
        b = np.broadcast(*[np.asarray(p) for p in params]) if params else None
        if b is None or b.shape == ():
            return None
        return b.shape

    def standard_normal(self, size=None, dtype=np.float64, out=None):
        self.tape.calls.append(("standard_normal", self.stream))
        return _fill(_shape(size), lambda: self.tape.normal_cell(self))

    def normal(self, loc=0.0, scale=1.0, size=None):
        self.tape.calls.append(("normal", self.stream))
        shape = self._bshape(size, loc, scale)
        z = _fill(shape, lambda: self.tape.normal_cell(self))
        return np.asarray(loc, dtype=float) + np.asarray(scale, dtype=float) * z if shape is not None else float(loc) + float(scale) * z

    def uniform(self, low=0.0, high=1.0, size=None):
        self.tape.calls.append(("uniform", self.stream))
        shape = self._bshape(size, low, high)
        if np.ndim(low) == 0 and np.ndim(high) == 0:
            return _fill(shape, lambda: self.tape.uniform_cell(self, low, high))
        lo = np.broadcast_to(np.asarray(low, dtype=float), shape).ravel()
        hi = np.broadcast_to(np.asarray(high, dtype=float), shape).ravel()
        return np.array([self.tape.uniform_cell(self, lo[i], hi[i]) for i in range(len(lo))]).reshape(shape)

    def random(self, size=None, dtype=np.float64, out=None):
        self.tape.calls.append(("random", self.stream))
        return _fill(_shape(size), lambda: self.tape.uniform_cell(self, 0.0, 1.0))

    def laplace(self, loc=0.0, scale=1.0, size=None):
        self.tape.calls.append(("laplace", self.stream))
        shape = self._bshape(size, loc, scale)
        if np.ndim(loc) or np.ndim(scale):
            self.tape.note_unmodelled("laplace(array parameters)")
            return self._real().laplace(loc, scale, size)

        def one():
            lo, hi = 0.0, 1.0
            menu = self.tape.menu_policy("laplace", lo, hi) if self.tape.menu_policy else (0.5, 0.05, 0.25, 0.75, 0.95)
            k, cell = self.tape.choose(self, "laplace", len(menu), {"loc": float(loc), "scale": float(scale)})
            u = float(menu[k])
            v = laplace_quantile(u, float(loc), float(scale))
            cell["frac"] = u
            cell["value"] = v
            return v
        return _fill(shape, one)

    def _quantile_cells(self, name, size, params, qf):
        """Other continuous laws drawn by inversion of one own uniform cell each (no `frac` recorded: a check that needs the documented
        transform of uniform / laplace cells treats these as unrecognised structure; independence analyses work on any cell)."""
        self.tape.calls.append((name, self.stream))
        if any(np.ndim(v) for v in params):
            self.tape.note_unmodelled("%s(array parameters)" % name)
            return getattr(self._real(), name)(*params, size)
        shape = self._bshape(size, *params)
        menu = (0.5, 0.05, 0.25, 0.75, 0.95)

        def one():
            k, cell = self.tape.choose(self, name, len(menu), {"params": [float(v) for v in params]})
            v = float(qf(menu[k], *[float(x) for x in params]))
            cell["value"] = v
            return v
        return _fill(shape, one)

    def exponential(self, scale=1.0, size=None):
        return self._quantile_cells("exponential", size, (scale,), lambda u, sc: -math.log(1.0 - u) * sc)

    def standard_exponential(self, size=None, *a, **k):
        return self._quantile_cells("standard_exponential", size, (), lambda u: -math.log(1.0 - u))

    def gumbel(self, loc=0.0, scale=1.0, size=None):
        return self._quantile_cells("gumbel", size, (loc, scale), lambda u, lo, sc: lo - sc * math.log(-math.log(u)))

    def logistic(self, loc=0.0, scale=1.0, size=None):
        return self._quantile_cells("logistic", size, (loc, scale), lambda u, lo, sc: lo + sc * math.log(u / (1.0 - u)))

    def _int_cell(self, low, high):
        n = int(high) - int(low)
        if n > self.tape.max_menu:
            if self.tape.wide_int_menu is not None:
                reps = sorted(set(min(n - 1, int(f * (n - 1))) for f in self.tape.wide_int_menu))
                k, cell = self.tape.choose(self, "integers-wide", len(reps), {"lo": int(low), "hi": int(high)})
                cell["value"] = int(low) + reps[k]
                return cell["value"]
            self.tape.note_unmodelled("integers(range %d)" % n)
            return int(low) + int(self._real_int(n))
        k, cell = self.tape.choose(self, "integers", n, {"lo": int(low), "hi": int(high)})
        cell["value"] = int(low) + k
        return int(low) + k

    def _pick_indices(self, n, size, replace, p):
        """Indices into a pool of n for choice(); one cell per element."""
        shape = _shape(size)
        k = 1 if shape is None else int(np.prod(shape))
        if p is not None:
            p = np.asarray(p, dtype=float)
            if p.shape != (n,):
                raise ValueError("'a' and 'p' must have same size")
            if np.any(p < 0) or not np.isclose(p.sum(), 1.0, atol=1e-8):
                raise ValueError("probabilities do not sum to 1")
            support = [i for i in range(n) if p[i] > 0]
        else:
            support = list(range(n))
        if n == 0 and k > 0:
            raise ValueError("a cannot be empty unless no samples are taken")
        idx = []
        if replace:
            for _ in range(k):
                c, cell = self.tape.choose(self, "choice", len(support), {"pool": n, "replace": True, "weighted": p is not None})
                cell["value"] = support[c]
                idx.append(support[c])
        else:
            if k > len(support):
                raise ValueError("Cannot take a larger sample than population when replace is False")
            rem = list(support)
            for _ in range(k):
                c, cell = self.tape.choose(self, "choice", len(rem), {"pool": n, "replace": False, "weighted": p is not None})
                cell["value"] = rem[c]
                idx.append(rem.pop(c))
        return idx, shape

    def choice(self, a, size=None, replace=True, p=None, axis=0, shuffle=True):
        self.tape.calls.append(("choice", self.stream))
        arr = np.asarray(a)
        if arr.ndim == 0:
            n = int(arr)
            if n < 0:
                raise ValueError("a must be a positive integer unless no samples are taken")
            pool = None
        else:
            n = arr.shape[0]
            pool = arr
        if axis != 0:
            self.tape.note_unmodelled("choice(axis=%r)" % axis)
            return self._real().choice(a, size, replace, p)
        idx, shape = self._pick_indices(n, size, replace, p)
        ia = np.array(idx, dtype=np.int64)
        if pool is None:
            res = ia
        else:
            res = pool[ia]
        if shape is None:
            return res[0]
        if pool is None or pool.ndim == 1:
            return res.reshape(shape)
        return res.reshape(shape + pool.shape[1:])

    def _perm(self, n):
        rem = list(range(n))
        out = []
        for _ in range(n):
            c, cell = self.tape.choose(self, "permutation", len(rem), {"n": n})
            cell["value"] = rem[c]
            out.append(rem.pop(c))
        return out

    def permutation(self, x, axis=0):
        self.tape.calls.append(("permutation", self.stream))
        if isinstance(x, (int, np.integer)):
            return np.array(self._perm(int(x)), dtype=np.int64)
        arr = np.array(x)
        if axis != 0:
            self.tape.note_unmodelled("permutation(axis)")
            return arr
        return arr[np.array(self._perm(arr.shape[0]), dtype=np.int64)]

    def shuffle(self, x, axis=0):
        self.tape.calls.append(("shuffle", self.stream))
        n = len(x)
        perm = self._perm(n)
        if isinstance(x, np.ndarray):
            x[...] = x[np.array(perm, dtype=np.int64)].copy() if n else x
        else:
            items = [x[i] for i in perm]
            for i in range(n):
                x[i] = items[i]
        return None


class TapeRandomState(_Draws, np.random.RandomState):
    """Legacy interface. multivariate_normal is inherited: numpy's own transform runs on the
    harness-chosen standard normals (it dispatches to self.standard_normal)."""

    def __new__(cls, seed=None, _global=False):
        return _RS.__new__(cls, 987654321)

    def __init__(self, seed=None, _global=False):
        _RS.__init__(self, 987654321)
        tape = _ACTIVE
        if tape is None:
            raise TapeError("TapeRandomState created without an active tape")
        self.tape = tape
        self._is_global = _global
        self.idx = 0
        if _global:
            self.stream = tape.global_stream
        elif seed is None:
            self.stream = tape.fresh_stream("R")
        else:
            self.stream = ("R", _seedkey(seed))
        self._realgen = None

    def _real(self):
        if self._realgen is None:
            self._realgen = _REAL["RandomState"](4242)
        return self._realgen

    def _real_int(self, n):
        return self._real().randint(0, n)

    def seed(self, seed=None):
        self.tape.calls.append(("seed", seed if seed is None else _seedkey(seed)))
        if seed is None:
            self.stream = self.tape.fresh_stream("G" if self._is_global else "R")
        else:
            self.stream = ("G" if self._is_global else "R", _seedkey(seed))
        self.idx = 0

    def random_sample(self, size=None):
        return self.random(size)

    ranf = sample = random_sample

    def rand(self, *shape):
        return self.random(shape if shape else None)

    def randn(self, *shape):
        return self.standard_normal(shape if shape else None)

    def randint(self, low, high=None, size=None, dtype=int):
        self.tape.calls.append(("randint", self.stream))
        if high is None:
            low, high = 0, low
        return _fill_int(_shape(size), lambda: self._int_cell(low, high))

    def get_state(self, legacy=True):
        return ("TAPE", self.stream, self.idx)

    def set_state(self, state):
        if isinstance(state, tuple) and state and state[0] == "TAPE":
            self.stream, self.idx = state[1], state[2]
        else:
            self.tape.note_unmodelled("set_state(foreign)")

    def multivariate_normal(self, mean, cov, size=None, check_valid="warn", tol=1e-8):
        self.tape.calls.append(("multivariate_normal", self.stream))
        with warnings.catch_warnings():
            warnings.simplefilter("ignore")
            return _RS.multivariate_normal(self, mean, cov, size, check_valid, tol)


class TapeGenerator(_Draws, np.random.Generator):
    def __init__(self, seed=None):
        _GEN.__init__(self, _PCG64(24680))
        tape = _ACTIVE
        if tape is None:
            raise TapeError("TapeGenerator created without an active tape")
        self.tape = tape
        self.idx = 0
        self.stream = tape.fresh_stream("L") if seed is None else ("L", _seedkey(seed))
        tape.calls.append(("default_rng", self.stream))

    def _real(self):
        return _REAL["Generator"](_REAL["PCG64"](13579))

    def _real_int(self, n):
        return self._real().integers(0, n)

    def integers(self, low, high=None, size=None, dtype=np.int64, endpoint=False):
        self.tape.calls.append(("integers", self.stream))
        if high is None:
            low, high = 0, low
        if np.ndim(low) or np.ndim(high):
            self.tape.note_unmodelled("integers(array bounds)")
            return self._real().integers(low, high, size, dtype, endpoint)
        if endpoint:
            high = high + 1
        if int(high) <= int(low):
            raise ValueError("low >= high")
        return _fill_int(_shape(size), lambda: self._int_cell(low, high))

    def permuted(self, x, axis=None, out=None):
        self.tape.note_unmodelled("permuted")
        return np.array(x)

    def multivariate_normal(self, mean, cov, size=None, check_valid="warn", tol=1e-8, *, method="svd"):
        self.tape.calls.append(("multivariate_normal", self.stream))
        with warnings.catch_warnings():
            warnings.simplefilter("ignore")
            return _GEN.multivariate_normal(self, mean, cov, size, check_valid, tol, method=method)


def _fill_int(shape, f):
    if shape is None:
        return f()
    n = int(np.prod(shape)) if len(shape) else 1
    return np.array([f() for _ in range(n)], dtype=np.int64).reshape(shape)


def _seedkey(seed):
    if isinstance(seed, (int, np.integer)):
        return int(seed)
    try:
        return tuple(int(s) for s in np.ravel(seed))
    except Exception:
        return repr(seed)


# unmodelled public sampling methods are counted, then served by a real, fixed-seed generator
_MODELLED = {"standard_normal", "normal", "uniform", "random", "laplace", "choice", "permutation", "shuffle", "integers",
             "randint", "random_sample", "ranf", "sample", "rand", "randn", "seed", "get_state", "set_state",
             "multivariate_normal", "permuted", "bit_generator", "spawn", "bytes",
             "exponential", "standard_exponential", "gumbel", "logistic"}


def _wrap_unmodelled(cls, base):
    for name in dir(base):
        if name.startswith("_") or name in _MODELLED or not callable(getattr(base, name, None)):
            continue

        def make(name):
            def method(self, *a, **k):
                self.tape.note_unmodelled(name)
                return getattr(self._real(), name)(*a, **k)
            method.__name__ = name
            return method
        setattr(cls, name, make(name))


_wrap_unmodelled(TapeRandomState, np.random.RandomState)
_wrap_unmodelled(TapeGenerator, np.random.Generator)


def _default_rng(seed=None):
    if isinstance(seed, _GEN):
        return seed
    if isinstance(seed, (_REAL["BitGenerator"], _REAL["SeedSequence"])):
        _ACTIVE.note_unmodelled("default_rng(BitGenerator/SeedSequence)")
        return _REAL["default_rng"](seed)
    return TapeGenerator(seed)


_GLOBAL_BOUND = [n for n in dir(np.random) if callable(getattr(np.random, n)) and
                 isinstance(getattr(getattr(np.random, n), "__self__", None), _RS)] + ["seed", "ranf", "sample"]
_ORIG = {n: getattr(np.random, n) for n in _GLOBAL_BOUND + ["default_rng", "RandomState", "Generator"]}


def _install(tape):
    npr = np.random
    saved = {}
    tape._saved = saved
    g = TapeRandomState(_global=True)
    tape.global_rs = g
    # every bound method of numpy's hidden global RandomState is re-bound to the tape's global stream
    for name in _GLOBAL_BOUND:
        saved[name] = getattr(npr, name)
        setattr(npr, name, getattr(g, name))
    for name, repl in (("default_rng", _default_rng), ("RandomState", TapeRandomState), ("Generator", _GeneratorFactory)):
        saved[name] = getattr(npr, name)
        setattr(npr, name, repl)


def _GeneratorFactory(bit_generator=None):
    _ACTIVE.note_unmodelled("Generator(bit_generator)")
    return _REAL["Generator"](bit_generator if bit_generator is not None else _REAL["PCG64"](1))


def _uninstall():
    tape = _ACTIVE
    for name, attr in tape._saved.items():
        setattr(np.random, name, attr)


# ----------------------------------------------------------------------------------------------
# explorers

def explore(run, bound=None, max_exec=200000, branch=None, stop=None):
    """Stateless DFS over answer sequences (the brief's idiom).

    run(prefix) executes the system with `prefix` as answers (0 afterwards) and returns the list of
    choice points met, each a dict with 'menu' and 'choice'.  Every alternative at every point after
    the prefix is explored, subject to `bound` = max number of non-default answers (None = complete
    product).  `branch(point)` restricts which choice points are branched in this phase (the others keep
    their default answer).  Returns (executions, capped)."""
    stack = [((), ())]
    nexec = 0
    capped = False
    budget0 = BUDGET_EVENTS[0]
    while stack:
        prefix, menus = stack.pop()
        if stop is not None and stop():
            break
        if BUDGET_EVENTS[0] - budget0 >= 20:      # the system keeps exhausting its draw budget: stop exploring this configuration
            capped = True
            break
        if nexec >= max_exec:
            capped = True
            break
        try:
            points = run(prefix)
        except TapeBudget:
            BUDGET_EVENTS[0] += 1        # abandoned execution: undecided, never a verdict
            nexec += 1
            continue
        nexec += 1
        if len(points) < len(prefix):
            raise TapeError("replay divergence: prefix of %d answers but only %d choice points met" % (len(prefix), len(points)))
        for i, m in enumerate(menus):
            if points[i]["menu"] != m or points[i]["choice"] != prefix[i]:
                raise TapeError("replay divergence at choice point %d: menu %r/choice %r, recorded menu %r/answer %r" % (
                    i, points[i]["menu"], points[i]["choice"], m, prefix[i]))
        devs = sum(1 for a in prefix if a)
        if bound is not None and devs >= bound:
            continue
        cur_menus = tuple(pt["menu"] for pt in points)
        for i in range(len(points) - 1, len(prefix) - 1, -1):
            if branch is not None and not branch(points[i]):
                continue            # not branched in this phase: stays at its default answer
            for alt in range(points[i]["menu"] - 1, 0, -1):
                np_prefix = tuple(prefix) + (0,) * (i - len(prefix)) + (alt,)
                stack.append((np_prefix, cur_menus[:i + 1]))
    return nexec, capped


def affine_response(run, probes=True, tol=1e-9):
    """Basis mode.  run(normal_values) -> (output ndarray, n_normal_cells, unmodelled).
    Returns dict(base, R [N x size], n, affine_ok, executions, detail)."""
    try:
        base, n, unm = run({})
    except TapeBudget:
        BUDGET_EVENTS[0] += 1
        return {"base": np.zeros(0), "n": 0, "unmodelled": 1, "affine_ok": False, "executions": 1, "detail": "draw budget exceeded", "R": np.zeros((0, 0))}
    base = np.asarray(base, dtype=float)
    res = {"base": base, "n": n, "unmodelled": unm, "affine_ok": True, "executions": 1, "detail": ""}
    R = np.zeros((n, base.size))
    for c in range(n):
        out, n2, unm2 = run({c: 1.0})
        res["executions"] += 1
        out = np.asarray(out, dtype=float)
        if n2 != n or out.shape != base.shape:
            res["affine_ok"] = False
            res["detail"] = "number of normal cells or output shape changed with the cell values"
            res["R"] = R
            return res
        R[c] = (out - base).ravel()
    res["R"] = R
    if probes and n:
        scale = max(1.0, float(np.max(np.abs(base), initial=0)), float(np.max(np.abs(R), initial=0)))
        tests = [{0: 2.0}, {n - 1: -1.0}, {c: 1.0 for c in range(n)}]
        if n >= 2:
            tests.append({0: 1.0, n - 1: 1.0})
            tests.append({n // 2: 0.5, 0: -2.0})
        for z in tests:
            out, n2, _ = run(z)
            res["executions"] += 1
            pred = base.ravel() + sum(v * R[c] for c, v in z.items())
            if n2 != n or np.max(np.abs(np.asarray(out, dtype=float).ravel() - pred), initial=0) > 1e-7 * scale * max(1, n):
                res["affine_ok"] = False
                res["detail"] = "output is not an affine function of the standard-normal cells (probe %s)" % (z,)
                break
    return res
