"""Conformance pass binding the RNG facade (tape.py) to the real numpy.

For every overridden method, a grid of arguments and real seeds: the real numpy call must lie in the
image of the facade's menu (valid k-permutation of the support, value inside the range, ...) with the
same shape and dtype as the facade's answer; numpy's multivariate_normal must dispatch to the
overridden standard_normal and its transform M must satisfy M^T M = Sigma; the determinism contract
(same seed => same stream) must hold for the real generators exactly as the facade's addressing assumes.
Returns the number of real-numpy traces validated.
"""
import numpy as np

from mc.env import tape

SEEDS = (0, 1, 7, 12345)


def _same_form(real, fake, what):
    r, f = np.asarray(real), np.asarray(fake)
    assert r.shape == f.shape, (what, r.shape, f.shape)
    assert r.dtype.kind == f.dtype.kind, (what, r.dtype, f.dtype)
    assert np.isscalar(real) == np.isscalar(fake) or (np.ndim(real) == 0) == (np.ndim(fake) == 0), what


def run():
    n = 0
    # ---- Generator methods
    grid_uniform = [(0, 1, None), (0, 1, 3), (-2, -1, (2, 2)), (0.5, 2, 4), (1, 1, 2), (0, 1, (3, 3))]
    for lo, hi, size in grid_uniform:
        with tape.Tape() as tp:
            fake = np.random.default_rng(0).uniform(lo, hi, size)
        for s in SEEDS:
            real = np.random.default_rng(s).uniform(lo, hi, size)
            _same_form(real, fake, ("uniform", lo, hi, size))
            assert np.all((np.asarray(real) >= lo) & (np.asarray(real) <= hi))
            n += 1
    for lo, hi, size in [(0, 3, 2), (1, 4, None), (0, 1, 5), (2, 6, (2, 2)), (0, 3, 0)]:
        with tape.Tape() as tp:
            fake = np.random.default_rng(0).integers(lo, hi, size)
        for s in SEEDS:
            real = np.random.default_rng(s).integers(lo, hi, size)
            _same_form(real, fake, ("integers", lo, hi, size))
            assert np.all((np.asarray(real) >= lo) & (np.asarray(real) < hi))
            n += 1
    pools = [5, [3, 1, 4], np.array([[0, 1], [2, 3], [4, 5]]), [(0, 1), (1, 2)], 1, [7]]
    for a in pools:
        npool = a if isinstance(a, int) else len(a)
        for size in (None, 0, 1, 2, npool):
            for replace in (True, False):
                fake_exc = real_exc = None
                with tape.Tape() as tp:
                    try:
                        fake = np.random.default_rng(0).choice(a, size=size, replace=replace)
                    except Exception as e:
                        fake_exc = type(e)
                try:
                    np.random.default_rng(0).choice(a, size=size, replace=replace)
                except Exception as e:
                    real_exc = type(e)
                assert fake_exc == real_exc, ("choice exception contract", a, size, replace, fake_exc, real_exc)
                n += 1
                if real_exc is not None:
                    continue
                for s in SEEDS:
                    real = np.random.default_rng(s).choice(a, size=size, replace=replace)
                    _same_form(real, fake, ("choice", a, size, replace))
                    rows = np.asarray(real).reshape((-1,) + np.asarray(a).shape[1:]) if not isinstance(a, int) else np.asarray(real).ravel()
                    poolarr = np.arange(a) if isinstance(a, int) else np.asarray(a)
                    idx = []
                    for row in rows:
                        hits = [k for k in range(len(poolarr)) if np.array_equal(poolarr[k], row)]
                        assert hits, ("choice value outside pool", a, row)
                        idx.append(hits[0])
                    if not replace:
                        assert len(set(idx)) == len(idx), ("choice repeats without replacement", a, real)
                    n += 1
    for x in (0, 1, 4, [3, 1, 2], np.arange(6).reshape(3, 2)):
        with tape.Tape() as tp:
            fake = np.random.default_rng(0).permutation(x)
        for s in SEEDS:
            real = np.random.default_rng(s).permutation(x)
            _same_form(real, fake, ("permutation", x))
            base = np.arange(x) if isinstance(x, int) else np.asarray(x)
            if len(base):
                assert sorted(map(tuple, np.asarray(real).reshape(len(base), -1).tolist())) == sorted(map(tuple, base.reshape(len(base), -1).tolist()))
            n += 1
    for mk in (lambda: [(0, 1), (2, 3), (4, 5)], lambda: np.arange(8.0).reshape(4, 2), lambda: []):
        x = mk()
        with tape.Tape() as tp:
            assert np.random.default_rng(0).shuffle(x) is None
        for s in SEEDS:
            y = mk()
            assert np.random.default_rng(s).shuffle(y) is None
            assert type(y) == type(x) and len(y) == len(x)
            if len(y):
                assert sorted(map(tuple, np.asarray(y).reshape(len(y), -1).tolist())) == sorted(map(tuple, np.asarray(mk()).reshape(len(y), -1).tolist()))
            n += 1
    # ---- legacy global functions
    for fn, args in (("normal", (1.0, 2.0, 3)), ("normal", (0, 1, None)), ("uniform", (0, 1, 4)), ("uniform", (-1, 2, None)),
                     ("laplace", (0.5, 2.0, 3)), ("standard_normal", (2,)), ("random", (3,)), ("rand", (2, 2)), ("randn", (3,)),
                     ("normal", (0, 1, 0)), ("uniform", (0, 1, 0)), ("laplace", (0, 1, 0))):
        with tape.Tape() as tp:
            fake = getattr(np.random, fn)(*args)
        for s in SEEDS:
            np.random.seed(s)
            real = getattr(np.random, fn)(*args)
            _same_form(real, fake, (fn, args))
            n += 1
    for a, size, p in ((range(4), 1, [0.5, 0, 0.5, 0]), (3, 2, [0.2, 0.3, 0.5]), (range(2), 1, [1.0, 0.0])):
        with tape.Tape() as tp:
            fake = np.random.choice(a, size, p=p)
        for s in SEEDS:
            np.random.seed(s)
            real = np.random.choice(a, size, p=p)
            _same_form(real, fake, ("choice p", a, size))
            assert all(p[int(v)] > 0 for v in np.ravel(real))
            n += 1
    # ---- multivariate_normal: dispatch + transform
    for mean, cov in (([1.0, 2.0], [[2.0, 1.0], [1.0, 2.0]]), ([0.0, 0.0, 0.0], [[1.0, 1.0, 0.0], [1.0, 1.0, 0.0], [0.0, 0.0, 4.0]]),
                      ([3.0], [[0.0]])):
        p = len(mean)
        for nrows in (0, 1, 3):
            def sample(z):
                with tape.Tape(normal_values=z) as tp:
                    np.random.seed(0)
                    out = np.random.multivariate_normal(mean, cov, size=nrows)
                return out, tp.n_normal(), tp.unmodelled
            res = tape.affine_response(sample)
            assert res["affine_ok"] and res["n"] == nrows * p and res["unmodelled"] == 0, res["detail"]
            assert np.allclose(res["base"], np.tile(mean, (nrows, 1)).reshape(res["base"].shape))
            R = res["R"]
            C = R.T @ R if nrows else np.zeros((0, 0))
            assert np.allclose(C, np.kron(np.eye(nrows), np.array(cov)), atol=1e-12), (C, cov)
            np.random.seed(0)
            real = np.random.multivariate_normal(mean, cov, size=nrows)
            _same_form(real, res["base"], "mvn")
            n += 1 + res["executions"]
    # ---- determinism contract of the real generators (what the addressing scheme assumes)
    for s in SEEDS:
        np.random.seed(s)
        a = np.random.normal(size=3)
        np.random.seed(s)
        assert np.array_equal(a, np.random.normal(size=3))
        assert np.array_equal(np.random.default_rng(s).uniform(size=3), np.random.default_rng(s).uniform(size=3))
        assert not np.array_equal(np.random.default_rng(s).uniform(size=3), np.random.default_rng(s + 1).uniform(size=3))
        g = np.random.default_rng(s)
        assert np.random.default_rng(g) is g
        n += 4
    with tape.Tape(answers=[2, 1]) as tp:
        a = np.random.default_rng(3).uniform(size=2)
        b = np.random.default_rng(3).uniform(size=2)
        c = np.random.default_rng(4).uniform(size=2)
        assert np.array_equal(a, b) and len(tp.points) == 4 and not np.array_equal(a, c)
        np.random.seed(1)
        x = np.random.uniform()
        np.random.seed(1)
        assert np.random.uniform() == x
    # patching is fully undone
    assert np.random.default_rng is tape._REAL["default_rng"] and np.random.RandomState is tape._RS
    assert all(getattr(np.random, k) is v for k, v in tape._ORIG.items())
    return n
