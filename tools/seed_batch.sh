#!/bin/sh
# usage: tools/seed_batch.sh <srcdir> <tag> [all|force]
#   evaluates every <srcdir>/Cxx/mutant_i.diff and files it as /verif/seeded/Cxx-<tag>i (skips those already filed unless "force"/"all")
src="${1:-/tmp/sa}"; tag="${2:-m}"; mode="$3"
rel() { case "$1" in
 C01) echo C01,C04,C06,C14;; C02) echo C02,C03,C04,C14;; C03) echo C03,C02,C07,C19;; C04) echo C04,C01,C02,C20;; C05) echo C05,C06,C14;;
 C06) echo C06,C05,C01;; C07) echo C07,C08,C09,C10;; C08) echo C08,C07,C09,C10;; C09) echo C09,C07,C08,C10;; C10) echo C10,C07,C08,C09;;
 C11) echo C11,C13;; C12) echo C12,C13;; C13) echo C13,C01,C04,C11;; C14) echo C14,C01,C05,C07;; C15) echo C15,C16;; C16) echo C16,C15,C07;;
 C17) echo C17,C13,C14;; C18) echo C18,C13,C14;; C19) echo C19,C03,C14;; C20) echo C20,C04,C13,C14;; esac; }
for d in $src/C??; do
  id=$(basename $d)
  for i in 1 2 3; do
    [ -f $d/mutant_$i.diff ] || continue
    name="${id}-${tag}$i"
    [ -f /verif/seeded/$name/meta.json ] && [ -z "$mode" ] && continue
    sed 's#/tmp/s[a-z]/rpy2stub#/verif/stubs#g' $d/demo_$i.py > /tmp/_demo_$name.py
    checks=$(rel $id); [ "$mode" = "all" ] && checks=all
    /verif/tools/seed_eval.py $name $id $d/mutant_$i.diff /tmp/_demo_$name.py $d/note_$i.txt --checks=$checks
  done
done
