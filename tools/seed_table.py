#!/usr/bin/env python3
"""Prints a markdown table of the seeded changes under /verif/seeded (from their meta.json)."""
import glob
import json
import os

rows = []
for f in sorted(glob.glob("/verif/seeded/*/meta.json")):
    m = json.load(open(f))
    res = m.get("checks_run", {}).get("results", {})
    target = m.get("breaks_property")
    tr = res.get(target, {})
    rows.append((m["name"], target, "yes" if m.get("valid_seed") else "NO", ",".join(m.get("caught_by", [])) or "-",
                 "; ".join(tr.get("signatures", [])[:2]), (m.get("needs_to_manifest", "").splitlines() or [""])[0][:110]))
print("| seeded change | property | valid (tests pass, demo fails/passes) | caught by (quick) | first signatures of the target check | what it is |")
print("|---|---|---|---|---|---|")
for r in rows:
    print("| %s | %s | %s | %s | %s | %s |" % r)
