#!/bin/sh
# Runs the relevant quick checks against every stored behaviour-preserving refactor (optionally only modules matching $1, e.g. gauss); prints only non-silent results.
rel() { case "$1" in graphs1) echo C02 C03 C07 C08 C09 C10 C14 C15 C16 C19;; graphs2) echo C07 C08 C09 C10 C13 C14 C15 C16 C18;; gauss) echo C01 C04 C05 C06 C13 C14;;
 anm) echo C02 C03 C04 C13 C14 C20;; gens) echo C11 C12 C13 C14;; semi) echo C03 C13 C14 C19;; misc) echo C05 C06 C13 C14 C17 C18;; esac; }
bad=0
for d in /verif/refactors/${1:-*}-[rst]?; do
  name=$(basename $d); mod=${name%-[rst]?}
  wt=$(mktemp -d /tmp/rf.XXXXXX); git -C /repo worktree add -q --detach $wt HEAD
  if git -C $wt apply --whitespace=nowarn $d/patch.diff 2>/dev/null; then
    for c in $(rel $mod); do
      out=$(VERIF_REPO=$wt VERIF_OUT=/tmp/verif-scratch-rf /verif/bin/check $c quick 2>&1); rc=$?
      [ $rc -ne 0 ] && { bad=1; echo "$name $c rc=$rc"; printf '%s\n' "$out" | grep -E '^\s+\[|HARNESS' | head -3 | cut -c1-300; }
    done
  else echo "$name: patch no longer applies"; fi
  git -C /repo worktree remove --force $wt
done
[ $bad -eq 0 ] && echo "all stored refactors: every relevant check silent"
