#!/bin/sh
# Re-evaluates every stored seeded change (seeded/<name>/patch.diff + demo.py) against the current checks and rewrites its meta.json.
# usage: tools/seed_recheck.sh [name-glob]      e.g. tools/seed_recheck.sh 'C11-*'
rel() { case "$1" in
 C01) echo C01,C04,C06,C14;; C02) echo C02,C03,C04,C14;; C03) echo C03,C02,C07,C19;; C04) echo C04,C01,C02,C20;; C05) echo C05,C06,C14;;
 C06) echo C06,C05,C01;; C07) echo C07,C08,C09,C10;; C08) echo C08,C07,C09,C10;; C09) echo C09,C07,C08,C10;; C10) echo C10,C07,C08,C09;;
 C11) echo C11,C13;; C12) echo C12,C13;; C13) echo C13,C01,C04,C11;; C14) echo C14,C01,C05,C07;; C15) echo C15,C16;; C16) echo C16,C15,C07;;
 C17) echo C17,C13,C14;; C18) echo C18,C13,C14;; C19) echo C19,C03,C14;; C20) echo C20,C04,C13,C14;; esac; }
glob="${1:-*}"
for d in /verif/seeded/$glob/; do
  name=$(basename $d); id=${name%%-*}
  [ -f $d/patch.diff ] || continue
  t=$(mktemp -d /tmp/sr.XXXXXX)
  cp $d/patch.diff $t/patch.diff; cp $d/demo.py $t/demo.py; [ -f $d/note.txt ] && cp $d/note.txt $t/note.txt
  /verif/tools/seed_eval.py $name $id $t/patch.diff $t/demo.py $t/note.txt --checks=$(rel $id)
  rm -rf $t
done
