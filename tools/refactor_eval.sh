#!/bin/sh
# usage: tools/refactor_eval.sh <dir> <checks,comma,separated>   - runs the checks against every behaviour-preserving refactor_i.diff in <dir>
d="$1"; checks=$(echo "$2" | tr , ' ')
for i in 1 2 3; do
  [ -f $d/refactor_$i.diff ] || continue
  wt=$(mktemp -d /tmp/rf.XXXXXX); git -C /repo worktree add -q --detach $wt HEAD
  git -C $wt apply --whitespace=nowarn $d/refactor_$i.diff || { echo "$d refactor_$i: does not apply"; git -C /repo worktree remove --force $wt; continue; }
  for c in $checks; do
    out=$(VERIF_REPO=$wt VERIF_OUT=/tmp/verif-scratch-rf /verif/bin/check $c quick 2>&1); rc=$?
    echo "$(basename $d) refactor_$i $c rc=$rc $(printf '%s\n' "$out" | tail -1 | cut -c1-120)"
    [ $rc -ne 0 ] && printf '%s\n' "$out" | grep -E '^\s+\[|HARNESS' | head -4 | cut -c1-400
  done
  git -C /repo worktree remove --force $wt
done
