#!/bin/sh
# usage: tools/seed_before.sh <verif-commit> > log   - runs the TARGET check of an older /verif commit against every delivered seeded change
commit="$1"
old=/tmp/verif_old_$commit
[ -d $old ] || git -C /verif worktree add -q --detach $old $commit
for src in ${SRCS:-/tmp/sa:m /tmp/sb:w2m}; do
  dir=${src%%:*}; tag=${src##*:}
  for d in $dir/C??; do
    id=$(basename $d)
    for i in 1 2 3; do
      [ -f $d/mutant_$i.diff ] || continue
      wt=$(mktemp -d /tmp/mb.XXXXXX); git -C /repo worktree add -q --detach $wt HEAD
      git -C $wt apply --whitespace=nowarn $d/mutant_$i.diff
      out=$(VERIF_REPO=$wt VERIF_OUT=/tmp/verif-scratch-old $old/bin/check $id quick 2>&1); rc=$?
      echo "$id-$tag$i $id rc=$rc violations=$(printf '%s\n' "$out" | grep -c '^VIOLATION') harness=$(printf '%s\n' "$out" | grep -c HARNESS)"
      git -C /repo worktree remove --force $wt
    done
  done
done
git -C /verif worktree remove --force $old
