#!/bin/sh
# usage: tools/mutant.sh <patch-file|-> <ID> [<ID> ...]      (reads a unified diff, applies it in a scratch
# worktree of /repo under /tmp, runs the quick checks against that worktree, removes the worktree)
# Optional: TESTS=1 also runs the pinned test suite in the worktree (-n 12).
patch="$1"; shift
wt=$(mktemp -d /tmp/mw.XXXXXX)
git -C /repo worktree add -q --detach "$wt" HEAD || exit 2
trap 'git -C /repo worktree remove --force "$wt" >/dev/null 2>&1; rm -rf "$wt"' EXIT
if [ "$patch" = "-" ]; then git -C "$wt" apply - || exit 2; else git -C "$wt" apply "$patch" || exit 2; fi
git -C "$wt" diff --stat | tail -1
if [ -n "$TESTS" ]; then (cd "$wt" && PYTHONPATH="$wt" /venv/bin/python -m pytest -q -p no:cacheprovider -n 12 --continue-on-collection-errors 2>&1 | tail -1); fi
tier="${TIER:-quick}"
for id in "$@"; do
  out=$(VERIF_REPO="$wt" /verif/bin/check "$id" "$tier" 2>&1); rc=$?
  nv=$(printf '%s\n' "$out" | grep -c '^VIOLATION')
  echo "== $id rc=$rc violations=$nv"
  printf '%s\n' "$out" | grep -E '^\s+\[' | cut -c1-260 | head -${SHOW:-3}
  printf '%s\n' "$out" | grep -E 'HARNESS' | head -3
done
