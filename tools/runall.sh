#!/bin/sh
# usage: tools/runall.sh [quick|thorough]  - runs every registered check against /repo, prints one line each
tier="${1:-quick}"
cd /verif
rc_all=0
for id in C01 C02 C03 C04 C05 C06 C07 C08 C09 C10 C11 C12 C13 C14 C15 C16 C17 C18 C19 C20; do
  s=$(date +%s)
  out=$(bin/check $id $tier 2>&1); rc=$?
  e=$(date +%s)
  echo "$id rc=$rc $((e-s))s $(printf '%s\n' "$out" | tail -1 | cut -c1-160)"
  [ $rc -ne 0 ] && rc_all=1 && printf '%s\n' "$out" | grep -E 'VIOLATION|HARNESS|KNOWN' | head -3
done
exit $rc_all
