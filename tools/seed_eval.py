#!/usr/bin/env python3
"""Evaluate one seeded change (from a sub-agent) and file it under /verif/seeded/<name>/.

usage: tools/seed_eval.py <name> <property> <patch.diff> <demo.py> [<note.txt>] [--checks C01,C02,...|all] [--tier quick]

Steps (all in a scratch worktree of /repo under /tmp, removed afterwards; /repo is never touched):
  1. apply the patch; run the pinned test suite (must be 104 passed, 1 collection error);
  2. run the demonstration with the patch (must fail) and on the clean tree (must pass);
  3. run the selected checks against the patched worktree (VERIF_REPO) and record which raise VIOLATION.
Writes seeded/<name>/{patch.diff, demo.py, note.txt, meta.json}.
"""
import json
import os
import re
import shutil
import subprocess
import sys
import tempfile
import time

ALL = ["C%02d" % i for i in range(1, 21)]


def sh(cmd, cwd=None, env=None, timeout=3600):
    p = subprocess.run(cmd, shell=True, cwd=cwd, env=env, capture_output=True, text=True, timeout=timeout)
    return p.returncode, p.stdout + p.stderr


def main():
    args = [a for a in sys.argv[1:] if not a.startswith("--")]
    opts = dict(a[2:].split("=", 1) if "=" in a else (a[2:], "1") for a in sys.argv[1:] if a.startswith("--"))
    name, prop, patch, demo = args[:4]
    note = args[4] if len(args) > 4 else None
    checks = ALL if opts.get("checks", "all") == "all" else opts["checks"].split(",")
    tier = opts.get("tier", "quick")
    wt = tempfile.mkdtemp(prefix="seed.", dir="/tmp")
    os.rmdir(wt)
    rc, out = sh("git -C /repo worktree add -q --detach %s HEAD" % wt)
    assert rc == 0, out
    meta = {"name": name, "breaks_property": prop, "evaluated_at_repo_head": sh("git -C /repo rev-parse --short HEAD")[1].strip()}
    try:
        stub = "/verif/stubs"
        env = dict(os.environ, PYTHONPATH="%s:%s" % (wt, stub), PYTHONDONTWRITEBYTECODE="1")
        env_nostub = dict(os.environ, PYTHONPATH=wt, PYTHONDONTWRITEBYTECODE="1")
        shutil.copy(demo, os.path.join(wt, "_demo.py"))
        rc, out = sh("/venv/bin/python _demo.py", cwd=wt, env=env, timeout=900)
        meta["demo_passes_on_clean_tree"] = rc == 0
        rc, out = sh("git -C %s apply --whitespace=nowarn %s" % (wt, os.path.abspath(patch)))
        if rc != 0:
            meta["error"] = "patch does not apply: " + out[-300:]
            print(json.dumps(meta, indent=1))
            return 2
        meta["files_changed"] = sh("git -C %s diff --stat" % wt)[1].strip().splitlines()[-1:]
        rc, out = sh("/venv/bin/python _demo.py", cwd=wt, env=env, timeout=900)
        meta["demo_fails_with_change"] = rc != 0
        meta["demo_tail"] = out.strip().splitlines()[-2:]
        t0 = time.time()
        rc, out = sh("/venv/bin/python -m pytest -q -p no:cacheprovider -n 12 --continue-on-collection-errors", cwd=wt, env=env_nostub, timeout=1800)
        tail = out.strip().splitlines()[-1] if out.strip() else ""
        meta["tests_with_change"] = tail
        meta["tests_pass_with_change"] = bool(re.search(r"\b104 passed\b", tail)) and "failed" not in tail and "1 error" in tail
        meta["tests_wall_s"] = round(time.time() - t0)
        res = {}
        for cid in checks:
            env2 = dict(os.environ, VERIF_REPO=wt, VERIF_OUT="/tmp/verif-scratch")
            t1 = time.time()
            rc, out = sh("/verif/bin/check %s %s" % (cid, tier), env=env2, timeout=7200)
            sigs = sorted(set(re.findall(r"^\s+\[([^\]]+)\]", out, re.M)))
            res[cid] = {"exit": rc, "violations": len(re.findall(r"^VIOLATION", out, re.M)), "signatures": sigs[:8],
                        "harness_error": "HARNESS-ERROR" in out, "wall_s": round(time.time() - t1, 1)}
        meta["checks_run"] = {"tier": tier, "results": res}
        meta["caught_by"] = [c for c, r in res.items() if r["exit"] == 1 and r["violations"] > 0]
        meta["harness_errors"] = [c for c, r in res.items() if r["harness_error"] or r["exit"] not in (0, 1)]
        meta["valid_seed"] = bool(meta["demo_passes_on_clean_tree"] and meta["demo_fails_with_change"] and meta["tests_pass_with_change"])
    finally:
        sh("git -C /repo worktree remove --force %s" % wt)
        shutil.rmtree(wt, ignore_errors=True)
    dest = os.path.join("/verif/seeded", name)
    os.makedirs(dest, exist_ok=True)
    shutil.copy(patch, os.path.join(dest, "patch.diff"))
    shutil.copy(demo, os.path.join(dest, "demo.py"))
    if note and os.path.exists(note):
        shutil.copy(note, os.path.join(dest, "note.txt"))
        meta["needs_to_manifest"] = open(note).read().strip()[:1200]
    meta["what_was_run"] = ("patch applied in a scratch worktree of /repo; pinned suite (pytest -n 12) ; demo.py with and without the patch "
                            "(PYTHONPATH=<worktree>:/verif/stubs); then bin/check <ID> %s with VERIF_REPO=<worktree> for %s" % (tier, ",".join(checks)))
    with open(os.path.join(dest, "meta.json"), "w") as fh:
        json.dump(meta, fh, indent=1)
    print("%s: valid=%s tests=%r demo_fail=%s demo_clean_ok=%s caught_by=%s harness_errors=%s" % (
        name, meta.get("valid_seed"), meta.get("tests_with_change"), meta.get("demo_fails_with_change"), meta.get("demo_passes_on_clean_tree"),
        meta.get("caught_by"), meta.get("harness_errors")))
    return 0


if __name__ == "__main__":
    sys.exit(main())
