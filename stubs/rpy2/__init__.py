"""Stand-in for rpy2, used only by the verification harness (never installed into /repo or /venv).

sempler.semi / drf/code.py reach R only through the handful of names defined here.  The R package
`drf` is replaced by a deterministic stand-in forest (see robjects/packages.py) that logs every fit
and every prediction query in LOG, so that the checker can see which data each (variable,
environment) model was fitted on and which synthetic parent values it was queried with.
"""
LOG = []          # entries: ("fit", fit_id, X, Y, params) | ("predict", fit_id, newdata)
COUNTER = [0]
WEIGHT_MODE = ["two-nearest"]


def reset():
    del LOG[:]
    COUNTER[0] = 0
