def activate():
    return None
