def activate():
    return None
