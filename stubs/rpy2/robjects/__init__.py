from . import conversion, numpy2ri, pandas2ri, packages  # noqa: F401


def r(_code):
    return None
