import numpy as np


def py2rpy(df):
    """DataFrame -> 'R object': the stand-in keeps a private float copy of the values."""
    return np.array(df.to_numpy(), dtype=float, copy=True)
