import numpy as np
import rpy2


class PackageNotInstalledError(Exception):
    pass


def weights_for(X, Q):
    """The stand-in forest: weight 1/2 on the two training rows nearest to the query (ties by index),
    weight 1 on the nearest one when there is a single training row or WEIGHT_MODE is 'nearest'."""
    m, ntrain = len(Q), len(X)
    W = np.zeros((m, ntrain))
    for r in range(m):
        d = ((X - Q[r]) ** 2).sum(axis=1)
        order = sorted(range(ntrain), key=lambda t: (d[t], t))
        if ntrain == 1 or rpy2.WEIGHT_MODE[0] == "nearest":
            W[r, order[0]] = 1.0
        else:
            W[r, order[0]] = 0.5
            W[r, order[1]] = 0.5
    return W


class _Fit:
    variable_importance = None

    def __init__(self, fit_id, X, Y, params):
        self.fit_id, self.X, self.Y, self.params = fit_id, X, Y, params


class _Base:
    @staticmethod
    def as_matrix(x):
        return np.asarray(x)


class _Drf:
    """Deterministic stand-in for the R package `drf`."""

    @staticmethod
    def drf(X, Y, **params):
        X = np.array(X, dtype=float, copy=True)
        Y = np.array(Y, dtype=float, copy=True)
        fit_id = rpy2.COUNTER[0]
        rpy2.COUNTER[0] += 1
        rpy2.LOG.append(("fit", fit_id, X.copy(), Y.copy(), dict(params)))
        return _Fit(fit_id, X, Y, params)

    @staticmethod
    def predict_drf(fit, newdata):
        Q = np.array(newdata, dtype=float, copy=True)
        rpy2.LOG.append(("predict", fit.fit_id, Q.copy()))
        return [weights_for(fit.X, Q), fit.Y.copy()]

    @staticmethod
    def print_drf(fit):
        return None

    @staticmethod
    def variableImportance(fit):
        return None


def importr(name):
    if name == "base":
        return _Base()
    if name == "drf":
        return _Drf()
    raise PackageNotInstalledError(name)
